"""C11 - stream decorators forward each event once, change only their field, never alias."""
import collections.abc
import copy
import datetime
import queue as queue_mod

from hypothesis import strategies as st

from vp.core import Case, Sub, V
from vp import streams

PROPERTY = "C11"
RULE = ("Hypothesis-generated trees (depth 1..3, fan-out 1..3) of CopyStreamResult / StreamTagger / "
        "TimestampingStreamResult / StreamToQueue over recording sinks and StreamFailFast leaves, fed "
        "generated event sequences (tags as set/frozenset/None, leading arguments positional or keyword, "
        "defaults explicit or omitted); every sink's log is compared with a pure functional model of its "
        "path, argument objects are snapshotted before/after each call; supplied timestamps include a non-UTC "
        "one and one far in the future, filled-in timestamps must lie in the real-clock window of the case, and "
        "the process time zone (TZ) is a generated dimension. "
        "The event sequence may be empty; frozensets are built per call and dropped after it (so an address can "
        "come back); besides the one bracketing run, extra startTestRun / stopTestRun calls are interleaved "
        "(a second or third run, an empty run, a run left open; always within the documented protocol: no "
        "status call outside a run, no start inside one, no stop outside one) and every sink must see the "
        "very same sequence of calls; a filled-in timestamp must lie in the clock window of the call that produced it; the "
        "StreamTagger constructor's own arguments are compared before/after construction, the caller's tag sets "
        "once more at the end of the case; what a tagger "
        "delivers as tags is None or a set (collections.abc.Set); a queue's routing code may be '' or None; "
        "queues may be bounded (a blocking put, timed or not, lets the consumer run and goes through; a "
        "non-blocking put on a full queue raises queue.Full); a StreamFailFast must fire for a history with a "
        "fail / uxsuccess event, at most once per such event it is told about, and never otherwise; a filled-in "
        "timestamp may be given to the millisecond or second; test_status ranges over the values status() "
        "documents; one target may be listed twice in a target list (it then receives every "
        "call twice); a small exhaustive grid pins each of these at every seed. "
        "Non-trivial: fan-out >= 2 below a "
        "StreamTagger, or tags supplied as set/frozenset to a tree containing a tagger, or a queue in the "
        "path; distinct = distinct canonical (tree, events).")
ASSUMPTIONS = [
    "any prefix of the ten status() parameters may be passed positionally, through every kind of tree",
    "a delivered object that the caller supplied may be the caller's own object; what is forbidden is "
    "that its value changes (caller's object mutated, or a recorded object changing after delivery)",
    "behind a StreamTagger 'no tags' may arrive as None or as an empty set: the statement does not say "
    "which (elsewhere an empty set stays an empty set and None stays None)",
    "the wall clock (datetime.now) does not step backwards while one case runs (timestamp-fill windows); "
    "POSIX only (time.tzset)",
    "a target listed twice in one target list is two targets: it is told twice",
    "the dict StreamToQueue puts on the queue is replayed with child.status(**item): its exact key set is "
    "not asserted; the 'result' entry of a startTestRun / stopTestRun item must be the StreamToQueue "
    "(its docstring)",
    "StreamTagger takes the value its add / discard arguments have when it is constructed: the caller changing "
    "those sets afterwards does not change what the tagger does (the statement's 'independent of ... sibling "
    "decorators' read for two taggers built from one set; a tagger that keeps the caller's set is reported)",
    "only the documented run protocol is exercised: every status call lies between a startTestRun and the next "
    "stopTestRun (StreamResult's 'typical use'; stopTestRun: 'no more test updates will be received'); runs may "
    "repeat, be empty, and the last one may be left open",
    "'the failure callback fired for fail and uxsuccess only': it fires if and only if such an event arrived, "
    "and at most once per arrival; firing once per failing event and firing for the first one only are both "
    "accepted",
    "StreamToQueue waits for room in a bounded queue (a blocking put, with or without a timeout; the harness's "
    "consumer always makes room): one that gives up at once (put_nowait) and lets queue.Full reach the caller "
    "loses an event and is reported",
    "'a supplied timestamp is never changed' is read literally: the very value arrives, also when it is naive or "
    "in another zone than UTC (rendering it in UTC - the same instant, == the original - is reported; the "
    "comparison is by == and isoformat())",
    "a routing code of '' is a routing code: 'otherwise it is prefixed' gives '/x' (only None means 'nothing "
    "to prefix'); an event's route code '' is not None either and is prefixed like any other",
    "a filled-in timestamp may have millisecond or whole-second resolution: the clock windows are widened to "
    "the resolution the delivered value visibly has",
    "test_status values are the ones StreamResult.status documents (None, inprogress, exists, xfail, uxsuccess, "
    "success, fail, skip); 'unknown' (FINAL_STATES) is not generated",
    "that a dropped temporary frozenset's address is reused by the next one is a CPython detail: it only "
    "affects sensitivity (identity-keyed caches), never the verdict on a correct tree",
]

TAGSET = st.sets(st.sampled_from(["t", "u", "v", "w", "tag-two"]), max_size=2)
TAGGER_FORM = st.sampled_from(["sets", "sets", "lists", "tuple+frozenset", "iterators", "positional", "none-if-empty", "omit-if-empty"])
DUP = st.one_of(st.none(), st.none(), st.none(), st.none(), st.none(), st.integers(0, 2))


def _with_dup(kids, d):
    """One target of the list may be listed once more (the same object, as a later sibling)."""
    if d is None or len(kids) >= 3:
        return kids
    return kids + [{"t": "dup", "ref": d % len(kids)}]


def node(depth):
    sink = st.builds(lambda: {"t": "sink"})
    ff = st.builds(lambda: {"t": "failfast"})
    if depth == 0:
        return st.one_of(sink, sink, ff)
    kids = st.builds(_with_dup, st.lists(node(depth - 1), min_size=1, max_size=3), DUP)
    return st.one_of(
        sink,
        st.builds(lambda c: {"t": "copy", "children": c}, kids),
        st.builds(lambda c, a, d, f: {"t": "tagger", "children": c, "add": sorted(a), "discard": sorted(d), "form": f}, kids, TAGSET, TAGSET, TAGGER_FORM),
        st.builds(lambda c: {"t": "ts", "child": c}, node(depth - 1)),
        # None: nothing to prefix (ConcurrentStreamTestSuite allows it); "": prefixed all the same ("/x")
        st.builds(lambda c, code, b: {"t": "queue", "child": c, "code": code, "bound": b}, node(depth - 1),
                  st.sampled_from(["0", "1", "q", "10", None, ""]), st.sampled_from([0, 0, 0, 1, 2])),
    )


def _has(tree, kinds):
    if tree["t"] in kinds:
        return True
    kids = tree.get("children") or ([tree["child"]] if "child" in tree else [])
    return any(_has(k, kinds) for k in kids)


TREE = st.one_of(node(1), node(2), node(3))
NODE1 = node(1)
ROUTE11 = st.one_of(streams.ROUTE, st.just(""))       # "" is not None: StreamToQueue documents "otherwise it is prefixed"
# the statuses status() documents ("unknown" is listed for FINAL_STATES only; to these decorators it is one more non-failure)
STATUSES11 = streams.INTERIM + streams.INTERIM + tuple(x for x in streams.FINAL if x != "unknown")
EVENTS = st.lists(streams.event(routes=ROUTE11, statuses=STATUSES11, stamps=(None, None, 0, 1, 2, "tz", "tz", "future", "usec", "naive")), min_size=0, max_size=8)
# calls of the run protocol besides the bracket: {"at": k, "op": ...} is made before the k-th status call
# (k == number of calls: after the last one, before the closing stopTestRun; beyond: after it)
EXTRA = st.one_of(st.just([]), st.just([]), st.just([]),
                  st.lists(st.builds(lambda at, op: {"at": at, "op": op}, st.integers(0, 9),
                                     st.sampled_from(["startTestRun", "stopTestRun"])), min_size=1, max_size=3))


@st.composite
def s_case(draw):
    tree = draw(TREE)
    if tree["t"] in ("sink", "failfast"):
        tree = {"t": "copy", "children": [tree, draw(NODE1)]}
    events = draw(EVENTS)
    calls = []
    for ev in events:
        calls.append({"ev": ev, "npos": draw(st.sampled_from([0, 0, 1, 2, 3, 5, 9, 10])),
                      "omit_defaults": draw(st.booleans()),
                      "reuse_set": draw(st.booleans())})       # the caller refills one scratch set instead of building a new one
    return {"tree": tree, "calls": calls, "bracket": draw(st.sampled_from(["run", "run", "none"])),
            "extra": draw(EXTRA),
            "drain": draw(st.sampled_from(["each", "each", "end"])),       # queues consumed after every call, or only at the end
            "TZ": draw(st.sampled_from(["UTC", "JST-9", "EST5EDT", "UTC"]))}     # the process's local time zone


class QueueItemError(Exception):
    """What a StreamToQueue put on its queue is not what its docstring describes."""


class HQueue(queue_mod.Queue):
    """queue.Queue whose put() honours block / timeout without a second thread: while a blocking put
    (with or without a timeout: the consumer is alive, so any wait is long enough) waits on a full queue
    the consumer gets its turn and the put goes through; a non-blocking put on a full queue gets
    queue.Full, and the consumer runs right afterwards (so a producer that tries again gets through)."""

    def __init__(self, maxsize=0):
        super().__init__(maxsize)
        self.consume = None

    def put(self, item, block=True, timeout=None):
        if self.maxsize > 0 and self.full():
            self.consume()
            if not block:
                raise queue_mod.Full
        super().put(item, block, timeout)


def build(tree, sinks, queues, path, ffs, vs):
    """sinks: [recorder, path, multiplicity]; ffs: {"count", "path", "mult"}"""
    from testtools.testresult.real import (CopyStreamResult, StreamTagger, TimestampingStreamResult,
                                           StreamFailFast, StreamToQueue)
    t = tree["t"]
    if t == "sink":
        r = streams.Recorder("s%d" % len(sinks))
        sinks.append([r, list(path), 1])
        return r
    if t == "failfast":
        rec = {"count": 0, "path": list(path), "mult": 1}
        ffs.append(rec)

        def cb():
            rec["count"] += 1
        return StreamFailFast(on_error=cb) if tree.get("kw") else StreamFailFast(cb)

    def build_kids(p):
        kids, spans, again = [], [], {}
        for c in tree["children"]:
            if c["t"] == "dup" and kids:
                k = c["ref"] % len(kids)
                kids.append(kids[k])
                spans.append(None)
                again[k] = again.get(k, 0) + 1
                continue
            if c["t"] == "dup":
                c = {"t": "sink"}
            s0, f0 = len(sinks), len(ffs)
            kids.append(build(c, sinks, queues, p, ffs, vs))
            spans.append((s0, len(sinks), f0, len(ffs)))
        for k, n in again.items():
            s0, s1, f0, f1 = spans[k]
            for i in range(s0, s1):
                sinks[i][2] *= 1 + n
            for i in range(f0, f1):
                ffs[i]["mult"] *= 1 + n
        return kids

    if t == "copy":
        return CopyStreamResult(targets=build_kids(path)) if tree.get("kw") else CopyStreamResult(build_kids(path))
    if t == "tagger":
        p = path + [("tagger", frozenset(tree["add"]), frozenset(tree["discard"]))]
        add, discard = set(tree["add"]), set(tree["discard"])
        kids = build_kids(p)
        form = tree.get("form", "sets")
        held = [("add", add, set(add)), ("discard", discard, set(discard))]     # (name, the caller's object, its value)
        # "add" / "discard" are documented as None or any iterable of tags
        if form == "lists":
            la, ld = sorted(add), sorted(discard)
            held = [("add", la, list(la)), ("discard", ld, list(ld))]
            tagger = StreamTagger(kids, add=la, discard=ld)
        elif form == "tuple+frozenset":
            held = []
            tagger = StreamTagger(kids, add=tuple(sorted(add)), discard=frozenset(discard))
        elif form == "iterators":
            held = []
            tagger = StreamTagger(kids, add=iter(sorted(add)), discard=(x for x in sorted(discard)))
        elif form == "positional":
            tagger = StreamTagger(kids, add, discard)
        elif form == "none-if-empty":
            tagger = StreamTagger(kids, add=add or None, discard=discard or None)
        elif form == "omit-if-empty":
            kw = {}
            if add:
                kw["add"] = add
            if discard:
                kw["discard"] = discard
            tagger = StreamTagger(kids, **kw)
        elif tree.get("kw"):
            tagger = StreamTagger(targets=kids, add=add, discard=discard)
        else:
            tagger = StreamTagger(kids, add=add, discard=discard)
        for name, obj, was in held:
            if obj != was:
                vs.append(V("caller-args", "ctor-mutated-" + name,
                            "StreamTagger(..., form %s) changed the caller's %s argument from %r to %r" % (form, name, was, obj)))
        # the constructor's arguments stay the caller's: what the caller does with them later is not the tagger's business
        add.add("LATER-ADDED")
        discard.update(("t", "u", "v", "w"))
        add.clear()
        discard.clear()
        return tagger
    if t == "ts":
        inner = build(tree["child"], sinks, queues, path + [("ts",)], ffs, vs)
        return TimestampingStreamResult(target=inner) if tree.get("kw") else TimestampingStreamResult(inner)
    if t == "queue":
        q = HQueue(tree.get("bound", 0))
        child = build(tree["child"], sinks, queues, path + [("queue", tree["code"])], ffs, vs)
        s = StreamToQueue(queue=q, routing_code=tree["code"]) if tree.get("kw") else StreamToQueue(q, tree["code"])
        q.consume = lambda: drain([(q, child, s)])
        queues.append((q, child, s))
        return s
    raise AssertionError(t)


def drain(queues):
    """Dequeue every StreamToQueue into its child, innermost last, until all are empty."""
    progress = True
    while progress:
        progress = False
        for q, child, s in queues:
            while not q.empty():
                progress = True
                item = q.get()
                if not isinstance(item, dict) or item.get("event") not in ("status", "startTestRun", "stopTestRun"):
                    raise QueueItemError("StreamToQueue put %r on its queue" % (item,))
                item = dict(item)
                kind = item.pop("event")
                if kind == "status":
                    child.status(**item)
                else:
                    if item.get("result") is not s:
                        raise QueueItemError("the %s item on the queue carries result=%r, not the StreamToQueue that was called" % (kind, item.get("result")))
                    getattr(child, kind)()


NOW = "NOW"


def _coarse(t, like, up=False):
    """t rounded down (up) to the resolution the value 'like' visibly has (whole seconds, milliseconds, or
    microseconds): "the current UTC time" need not be given to the microsecond."""
    if like.microsecond % 1000:
        return t
    unit = 1000 if like.microsecond else 1000000
    down = t - datetime.timedelta(microseconds=t.microsecond % unit)
    return down + datetime.timedelta(microseconds=unit) if up and down != t else down


def model_path(ev, path):
    ev = dict(ev)
    for step in path:
        if step[0] == "tagger":
            tags = (set(ev["test_tags"] or ()) | step[1]) - step[2]
            ev["test_tags"] = frozenset(tags) if tags else None
        elif step[0] == "ts":
            if ev["timestamp"] is None:
                ev["timestamp"] = NOW
        elif step[0] == "queue":
            if step[1] is not None:
                ev["route_code"] = step[1] if ev["route_code"] is None else step[1] + "/" + ev["route_code"]
    return ev


DEFAULTS = dict(test_id=None, test_status=None, test_tags=None, runnable=True, file_name=None,
                file_bytes=None, eof=False, mime_type=None, route_code=None, timestamp=None)


def run_case(spec):
    import os
    import time
    old = os.environ.get("TZ")
    os.environ["TZ"] = spec.get("TZ", "UTC")
    time.tzset()
    try:
        return _run_case(spec)
    finally:
        if old is None:
            del os.environ["TZ"]
        else:
            os.environ["TZ"] = old
        time.tzset()


def op_list(spec):
    """The calls made on the root, in order: ("startTestRun",) / ("stopTestRun",) / ("status", index of the call).
    What the spec asks for is brought into the documented run protocol (startTestRun, status..., stopTestRun,
    any number of times; the last run may be left open): a startTestRun inside a run and a stopTestRun outside
    one are dropped, a status call outside a run is preceded by a startTestRun."""
    n = len(spec["calls"])
    extra = sorted(((min(e["at"], n + 1), j, e["op"]) for j, e in enumerate(spec.get("extra") or ())))
    ops = []
    if spec["bracket"] == "run":
        ops.append(("startTestRun",))
    for i in range(n + 2):
        ops.extend((op,) for at, _, op in extra if at == i)
        if i < n:
            ops.append(("status", i))
        elif i == n and spec["bracket"] == "run":
            ops.append(("stopTestRun",))
    conforming, running = [], False
    for op in ops:
        if op[0] == "startTestRun":
            if running:
                continue
            running = True
        elif op[0] == "stopTestRun":
            if not running:
                continue
            running = False
        elif not running:
            conforming.append(("startTestRun",))
            running = True
        conforming.append(op)
    return conforming


def _run_case(spec):
    vs = []
    sinks, queues, ffs = [], [], []
    try:
        root = build(spec["tree"], sinks, queues, [], ffs, vs)
    except TypeError as e:      # a documented constructor parameter (positional or by its name) was refused
        return Case([V("forward", "constructor-raises-TypeError", "building %r raised %r" % (spec["tree"], e))], True, ["raised"])
    ops = op_list(spec)
    late = spec.get("drain") == "end"
    window = {}          # index of the call -> (clock before the call, clock after it and its drain)
    scratch = set()
    kept = []            # (index of the call, the caller's set, its value): sets stay alive and are looked at again at the end
    t_start = datetime.datetime.now(streams.UTC)
    for op in ops:
        if op[0] != "status":
            try:
                getattr(root, op[0])()
                if not late:
                    drain(queues)
            except QueueItemError as e:
                vs.append(V("forward", "queue-item", str(e)))
                return Case(vs, True, ["raised"])
            except Exception as e:
                vs.append(V("forward", "raises-%s-%s" % (type(e).__name__, op[0]), "%s() raised %r" % (op[0], e)))
                return Case(vs, True, ["raised"])
            continue
        call = spec["calls"][op[1]]
        kw = streams.kwargs_of(call["ev"])
        if isinstance(kw["test_tags"], frozenset):
            kw["test_tags"] = frozenset(list(kw["test_tags"]))     # a temporary of this call, not the spec's own object
        if call.get("reuse_set") and isinstance(kw["test_tags"], set):
            if late:
                kw["test_tags"] = set(kw["test_tags"])      # a late consumer and a refilled scratch set do not go together
            else:
                scratch.clear()
                scratch.update(kw["test_tags"])
                kw["test_tags"] = scratch
        before = copy.deepcopy(kw)
        args = [kw[f] for f in streams.FIELDS[:call["npos"]]]
        rest = {f: kw[f] for f in streams.FIELDS[call["npos"]:]}
        if call["omit_defaults"]:
            rest = {f: v for f, v in rest.items() if v != DEFAULTS[f] or isinstance(v, (set, frozenset))}
        t0 = datetime.datetime.now(streams.UTC)
        try:
            root.status(*args, **rest)
            if not late:
                drain(queues)
        except QueueItemError as e:
            vs.append(V("forward", "queue-item", str(e)))
            return Case(vs, True, ["raised"])
        except Exception as e:
            kind = type(call["ev"]["test_tags"]).__name__
            vs.append(V("forward", "raises-%s-tags=%s" % (type(e).__name__, kind),
                        "status(%r) raised %r" % (call["ev"], e)))
            return Case(vs, True, ["raised"])
        window[op[1]] = (t0, datetime.datetime.now(streams.UTC))
        if kw != before:
            changed = [f for f in kw if kw[f] != before[f]]
            vs.append(V("caller-args", "mutated-" + ",".join(changed),
                        "caller's argument %s changed from %r to %r" % (changed, {f: before[f] for f in changed}, {f: kw[f] for f in changed})))
        if isinstance(kw["test_tags"], set) and kw["test_tags"] is not scratch:
            kept.append((op[1], kw["test_tags"], frozenset(kw["test_tags"])))
        # the caller's temporaries die here, its frozenset last (CPython then hands the address to the next one)
        before = args = rest = None
        kw = None
    try:
        drain(queues)
    except QueueItemError as e:
        vs.append(V("forward", "queue-item", str(e)))
        return Case(vs, True, ["raised"])
    except Exception as e:
        vs.append(V("forward", "raises-%s-consumer" % type(e).__name__, "consuming the queues raised %r" % (e,)))
        return Case(vs, True, ["raised"])
    t_end = datetime.datetime.now(streams.UTC)
    for i, obj, was in kept:
        if obj != was:
            vs.append(V("caller-args", "mutated-later-test_tags", "the set the caller passed as test_tags of call %d was %r after the call and is %r at the end" % (i, set(was), obj)))
            break

    inputs = [streams.norm_event(c["ev"]) for c in spec["calls"]]
    for rec, path, mult in sinks:
        kinds = [p[0] for p in path]
        tagged = "tagger" in kinds
        # the fill happens inside the call unless a queue that is consumed late sits above the first timestamper
        in_call = not late or ("ts" in kinds and "queue" not in kinds[:kinds.index("ts")])
        want_ops = [op for op in ops for _ in range(mult)]
        got_ops = [e[0] for e in rec.events]
        if got_ops != [op[0] for op in want_ops]:
            for name in ("startTestRun", "stopTestRun"):
                if got_ops.count(name) != sum(1 for op in want_ops if op[0] == name):
                    vs.append(V("forward", "start-stop-count", "sink behind %r got %d %s, expected %d (calls made on the root: %r, each due %d time(s))" % (
                        path, got_ops.count(name), name, sum(1 for op in want_ops if op[0] == name), [op[0] for op in ops], mult)))
                    break
            else:
                if got_ops.count("status") != len(spec["calls"]) * mult:
                    vs.append(V("forward", "event-count", "sink behind %r got %d status calls, %d were sent (each due %d time(s))" % (path, got_ops.count("status"), len(spec["calls"]), mult)))
                else:
                    vs.append(V("forward", "start-stop-order", "sink behind %r saw %r, the root was called %r (each due %d time(s))" % (path, got_ops, [op[0] for op in ops], mult)))
            continue
        got = rec.statuses()
        want_idx = [op[1] for op in want_ops if op[0] == "status"]
        for n, (g, i) in enumerate(zip(got, want_idx)):
            w = model_path(inputs[i], path)
            for f in streams.FIELDS:
                if w[f] == NOW:
                    tsv = g[f]
                    lo, hi = window[i][0], (window[i][1] if in_call else t_end)
                    if not (isinstance(tsv, datetime.datetime) and tsv.tzinfo is not None
                            and tsv.utcoffset() == datetime.timedelta(0)
                            and _coarse(t_start, tsv) <= tsv <= _coarse(t_end, tsv, True)):
                        vs.append(V("field", "timestamp-fill", "missing timestamp filled with %r (not a current UTC datetime)" % (tsv,)))
                    elif not _coarse(lo, tsv) <= tsv <= _coarse(hi, tsv, True):
                        vs.append(V("field", "timestamp-fill-not-current", "event %d: missing timestamp filled with %r, the call ran from %r to %r" % (i, tsv, lo, hi)))
                elif f == "test_tags" and tagged and not w[f]:
                    if g[f]:
                        vs.append(V("field", "tags-test_tags", "event %d field %s: sink behind %r received %r, model says no tags" % (i, f, path, g[f])))
                elif g[f] != w[f] or (f == "timestamp" and g[f] is not None and g[f].isoformat() != w[f].isoformat()):
                    owner = {"test_tags": "tags", "timestamp": "timestamp", "route_code": "route"}.get(f, "other")
                    vs.append(V("field", "%s-%s" % (owner, f), "event %d field %s: sink behind %r received %r, model says %r" % (i, f, path, g[f], w[f])))
        # what was delivered must not change afterwards
        for i, (live, (_, snap)) in enumerate(zip(rec.live, [e for e in rec.events if e[0] == "status"])):
            lt = live["test_tags"]
            if lt is scratch:
                continue        # the caller's own set, refilled by the caller
            if lt is not None and not isinstance(lt, collections.abc.Set):
                vs.append(V("field", "tags-container", "sink behind %r received its tags as %s %r: neither None nor a set" % (path, type(lt).__name__, lt)))
                break
            if (None if lt is None else frozenset(lt)) != snap["test_tags"]:
                vs.append(V("alias", "delivered-tags-changed-later",
                            "tags delivered to sink behind %r changed after delivery: %r -> %r" % (path, snap["test_tags"], lt)))
                break
    nfail = sum(1 for c in spec["calls"] if c["ev"]["test_status"] in ("fail", "uxsuccess"))
    for ff in ffs:
        # fired for every failing event it was told about, or only for the first one(s): both are "fail fast"
        if (ff["count"] > 0) != (nfail > 0) or ff["count"] > nfail * ff["mult"]:
            vs.append(V("failfast", "callback-count", "failure callback fired %d times for %d fail/uxsuccess events (each due %d time(s))" % (ff["count"], nfail, ff["mult"])))

    def fan_below_tagger(t, below=False):
        kids = t.get("children") or ([t["child"]] if "child" in t else [])
        if below and len(t.get("children") or ()) >= 2:
            return True
        return any(fan_below_tagger(k, below or t["t"] == "tagger") for k in kids) or \
            (t["t"] == "tagger" and len(t["children"]) >= 2)
    has_tagger = _has(spec["tree"], ("tagger",))
    settags = any(isinstance(c["ev"]["test_tags"], (set, frozenset)) for c in spec["calls"])
    nt = fan_below_tagger(spec["tree"]) or (has_tagger and settags) or _has(spec["tree"], ("queue",))
    labels = ["tagger" if has_tagger else "no-tagger", "queue" if _has(spec["tree"], ("queue",)) else "no-queue",
              "ts" if _has(spec["tree"], ("ts",)) else "no-ts", "sinks=%d" % len(sinks), "failfast=%d" % len(ffs),
              "settags" if settags else "no-settags", "TZ=" + spec.get("TZ", "UTC"),
              "events=0" if not spec["calls"] else "events>0", "extra-ops" if spec.get("extra") else "plain-bracket",
              "dup" if _has(spec["tree"], ("dup",)) else "no-dup"]
    return Case(vs, nt, labels, {"sinks": len(sinks)})


# ---------------------------------------------------------------------------------------------------------
# a small exhaustive grid: every edge the random trees reach only now and then, at every seed

def _ev(tags=None, status="success", stamp=None, route=None, test_id="a"):
    return {"test_id": test_id, "test_status": status, "test_tags": tags, "runnable": True, "route_code": route,
            "timestamp": stamp, "file_name": None, "file_bytes": None, "eof": False, "mime_type": None}


def _calls(evs, npos=0):
    return [{"ev": e, "npos": npos, "omit_defaults": False, "reuse_set": False} for e in evs]


def _spec(tree, evs, bracket="run", extra=(), drain_="each", npos=0):
    return {"tree": tree, "calls": _calls(evs, npos), "bracket": bracket, "extra": list(extra), "drain": drain_, "TZ": "UTC"}


def _unary(kind, inner=None, **kw):
    inner = inner or {"t": "sink"}
    if kind == "copy":
        return {"t": "copy", "children": [inner]}
    if kind == "tagger":
        return {"t": "tagger", "children": [inner], "add": kw.get("add", ["x"]), "discard": kw.get("discard", []), "form": kw.get("form", "sets")}
    if kind == "ts":
        return {"t": "ts", "child": inner}
    return {"t": "queue", "child": inner, "code": kw.get("code", "q"), "bound": kw.get("bound", 0)}


def _enum_edges():
    S = {"t": "sink"}
    FF = {"t": "failfast"}
    kinds = ("copy", "tagger", "ts", "queue")
    # temporary frozensets of equal size, one per event, through a tagger (root, and below another decorator)
    for tags in (["t", "u", "v", "w"], ["tu", "uv", "vw", "wt", "tu"]):
        evs = [_ev(frozenset([x])) for x in tags]
        for npos in (0, 3):
            yield _spec(_unary("tagger"), evs, npos=npos)
            yield _spec(_unary("copy", _unary("tagger", add=[], discard=["z"])), evs, npos=npos)
            yield _spec(_unary("tagger", {"t": "copy", "children": [S, S]}, add=["t"], discard=["u"]), evs, npos=npos, bracket="none")
    yield _spec(_unary("tagger"), [_ev(frozenset(["t", "u"])), _ev(frozenset(["u", "v"])), _ev(frozenset(["v", "w"]))])
    # a run without events; the run protocol beyond one bracket
    # (all within the documented protocol; op_list would bring anything else into it)
    start, stop = (lambda at: {"at": at, "op": "startTestRun"}), (lambda at: {"at": at, "op": "stopTestRun"})
    protocols = [("run", []),
                 ("none", [start(0)]),                                        # one run, left open
                 ("run", [stop(1), start(1)]),                                # two runs
                 ("run", [stop(0), start(0)]),                                # an empty run first
                 ("run", [start(9), stop(9)]),                                # an empty second run
                 ("run", [start(9)]),                                         # a second run, left open
                 ("none", [start(0), stop(1), start(1)]),                     # two runs, the second left open
                 ("run", [stop(0), start(0), stop(1), start(1)]),             # three runs
                 ("run", [stop(1), start(1), start(9), stop(9)])]             # two runs and an empty third
    for kind in kinds:
        for inner in (S, {"t": "copy", "children": [S, FF]}):
            for drain_ in ("each", "end"):
                if drain_ == "end" and kind != "queue":
                    continue
                for bracket, extra in protocols:
                    for evs in ([], [_ev(status="fail"), _ev({"t"}, test_id="b")]):
                        yield _spec(_unary(kind, inner), evs, bracket=bracket, extra=extra, drain_=drain_)
    # the tagger's constructor arguments: a tag both added and discarded, in every form
    for form in ("sets", "lists", "tuple+frozenset", "iterators", "positional", "none-if-empty", "omit-if-empty"):
        for add, discard in ((["t", "u"], ["u"]), (["t"], ["t"]), ([], ["t"]), (["tag-two"], [])):
            yield _spec(_unary("tagger", add=add, discard=discard, form=form), [_ev({"t", "u"}), _ev(None), _ev(set()), _ev(frozenset())])
    # routing codes of the queue x route codes of the event
    for code in ("", None, "0", "10"):
        for drain_ in ("each", "end"):
            yield _spec(_unary("queue", code=code), [_ev(route=r) for r in (None, "", "x", "x/1", "/", "x/")], drain_=drain_)
            yield _spec(_unary("queue", _unary("queue", code=code), code=""), [_ev(route=r) for r in (None, "", "x")], drain_=drain_)
    # filled timestamps call by call
    for tree in (_unary("ts"), _unary("copy", _unary("ts")), _unary("ts", _unary("queue")), _unary("queue", _unary("ts")),
                 _unary("ts", _unary("ts"))):
        for drain_ in ("each", "end"):
            for npos in (0, 10):
                yield _spec(tree, [_ev(stamp=None, test_id=i) for i in "abc"] + [_ev(stamp=1), _ev(stamp=None)], drain_=drain_, npos=npos)
    # bounded queues with a consumer that only runs when it has to (or at the end)
    for bound in (1, 2):
        for drain_ in ("each", "end"):
            for bracket in ("run", "none"):
                evs = [_ev(test_id=i, status=s) for i, s in zip("abcab", ("inprogress", "fail", "success", "success", "uxsuccess"))]
                yield _spec(_unary("queue", bound=bound), evs, drain_=drain_, bracket=bracket)
                yield _spec(_unary("queue", _unary("queue", {"t": "copy", "children": [S, FF]}, bound=1, code="1"), bound=bound), evs, drain_=drain_, bracket=bracket)
                yield _spec(_unary("copy", {"t": "copy", "children": [_unary("queue", bound=bound), S]}), evs, drain_=drain_, bracket=bracket)
    # constructor parameters by keyword
    for kind in kinds:
        for inner in (S, FF):
            t = _unary(kind, dict(inner, kw=True))
            t["kw"] = True
            yield _spec(t, [_ev({"t"}, status="fail"), _ev(None, test_id="b")])
    # one target listed twice
    D0 = {"t": "dup", "ref": 0}
    for kind in ("copy", "tagger"):
        for first in (S, FF, _unary("ts"), _unary("queue"), _unary("tagger", add=["y"]), {"t": "copy", "children": [S, D0]}):
            for kids in ([first, D0], [first, D0, D0], [first, S, D0], [S, first, {"t": "dup", "ref": 1}]):
                for drain_ in ("each", "end"):
                    if drain_ == "end" and not _has(first, ("queue",)):
                        continue
                    t = _unary(kind)
                    t["children"] = kids
                    yield _spec(t, [_ev({"t"}, status="fail"), _ev(None, test_id="b")], drain_=drain_)
                    yield _spec(t, [], drain_=drain_)


def subchecks(tier):
    q = tier == "quick"
    return [Sub("decorator_trees", run_case, s_case(), 3500 if q else 120000),
            Sub("edge_grid", run_case, enum=_enum_edges, enum_complete=True,
                note="empty runs, run protocol, temporary frozensets, constructor arguments, '' / None routing codes, "
                     "per-call timestamp windows, bounded queues, a target listed twice, constructors called by keyword")]
