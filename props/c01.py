"""C01 - every test run is bracketed and yields exactly one outcome."""
import copy
import itertools

from hypothesis import strategies as st

from vp.core import Case, Sub, V
from vp import programs as P
from vp import progrun as R
from vp.results import OUTCOMES

PROPERTY = "C01"
RULE = ("Generated test programs (setUp before/after the upcall, test method, tearDown before/after the upcall, "
        "nested cleanups registered anywhere, expectThat/assertThat mismatches, force_failure, skip decorators; every "
        "stage may raise failure / error / skip / expected failure / unexpected success / MultipleExceptions / "
        "KeyboardInterrupt / SystemExit / a custom BaseException; skips with an empty reason, exceptions whose bool() is "
        "False, expectFailure around a callable raising an error or a skip) run against 9 result flavours (2.6-style, 2.7-style, "
        "extended, Twisted-style, testtools.TestResult, StreamResult behind ExtendedToStreamDecorator, result=None); "
        "oracle: the event log is exactly startTest, one outcome, stopTest; a non-Exception error is reported as an "
        "error, all later stages still run (execution log equals the reference interpreter's) and the very exception "
        "object (of a BaseExceptionGroup: it or a non-Exception part of it) propagates out of run() after stopTest. Thorough adds the exhaustive grid of 10 behaviours x 5 "
        "stages. Laid over the programs, and enumerated by variant_grid: the case is a clone_test_with_new_id copy; "
        "errors that are dataclass exceptions (unhashable, value-equal), equal-to-all exceptions, ExceptionGroups, "
        "a BaseExceptionGroup holding an interrupt; exception objects already reported by another test's run; a falsy "
        "result object; an @expectedFailure method raising MultipleExceptions of Exceptions. Stages that ran are "
        "compared as a multiset (their order is C02's); a skip-decorated test may either run nothing or run setUp / "
        "tearDown / cleanups around a skipping method; user code must lie between startTest and stopTest. rerun_grid: the same "
        "case object run a second time after a complete first run in which one stage raised (8 behaviours x 5 stages x the "
        "behaviour of the second run x 4 flavour pairs, 2336 histories enumerated); the second run is judged as the first run of a "
        "fresh object would be - nothing of the earlier run may linger. Non-trivial: >= 2 stages raise, or a non-Exception is raised, or flavour != extended; distinct = "
        "distinct canonical (program, flavour).")
ASSUMPTIONS = [
    "user handlers are only generated for Exception subclasses",
    "when two non-Exception errors are raised either may propagate",
    "a BaseExceptionGroup raised by user code may leave run() as that object or as a part of it that does not derive from "
    "Exception either (a nested member such as the KeyboardInterrupt inside, a split() subgroup of its very members)",
    "tearDown is expected only after a completed setUp, also when setUp was cut short by a non-Exception: RunTest is documented "
    "(doc/for-framework-folk.rst) to call setUp, the test method, tearDown and clean ups 'in the normal, vanilla way that "
    "Python's standard unittest does', and unittest calls tearDown only if setUp succeeded; a runner that reads sentence 2 of "
    "the statement literally and attempts tearDown after an interrupted setUp is reported (nonexc:stages-skipped)",
    "a setUp / tearDown that never upcalls is an error of that stage (ValueError, docstrings of TestCase._run_setup / "
    "_run_teardown), so the stages-still-run clause expects what follows an ordinary error there",
    "addOnException handlers that raise are outside the domain (documented to abort the run)",
    "the reference interpreter runs cleanups last-in-first-out; the stages-still-run clause compares multisets, so another "
    "order only matters where a cleanup re-registers a callable / re-raises a MultipleExceptions first seen in another cleanup",
    "a skip decorator either short-circuits the whole test or leaves setUp / tearDown / cleanups running around a method "
    "that raises the skip (the outcome is then whatever those stages make of it, also when they log nothing: no upcall, a "
    "failure forced from outside, an unrelated skipException); a decorated test that runs its own body is reported (decorator-skip:ran-code) although the "
    "statement itself only asks for one outcome",
    "with result=None a startTestRun/stopTestRun pair around the default result is optional; if either is sent both must be, "
    "first and last",
    "an @expectedFailure method raising MultipleExceptions that holds a KeyboardInterrupt / SystemExit is excluded: the "
    "decorator's wrapper turns the container into an expected failure on the current tree (third audit, B2)",
    "a clone of an @expectedFailure test is excluded (its body runs on the instance it was copied from; C02 / C05 matter)",
    "the 'locals' flavour relies on CPython >= 3.11 swallowing a failing repr() while rendering frame locals (3.12 is pinned)",
    "testtools.testcase._ExpectedFailure / _UnexpectedSuccess are subclassed by name for the 'xfail_sub' / 'ux_sub' kinds: "
    "renaming them is a harness error (exit 2), not a violation",
]

PROG = P.programs(nonexc=True, multi=True, expect=True, force=True, decor=True, cleanup_depth=2, p_raise=4, extras=True,
                  nonexc_more=True, texts=True, rets=True, upcall=True)
# Variations laid over a drawn program (they leave its structure alone, so the older dimensions are not diluted):
# how the case object came to be, what kind of object an "error" / a custom BaseException is, whether the raised
# objects have been through another test's run before, whether the result object is falsy.
MODS = st.fixed_dictionaries({
    "clone": st.sampled_from([False, False, False, False, True]),
    "shape": st.sampled_from([None, None, None, None, None, None, "error_dc", "error_dc", "error_eq", "group"]),
    "basegroup": st.sampled_from([False, False, False, True]),
    "reuse": st.sampled_from([False, False, False, False, False, True]),
    "falsy": st.sampled_from([False, False, False, False, False, True]),
    "xf_multi": st.sampled_from([False, False, True]),
})


def _walk_raises(acts, fn):
    for a in acts:
        if a.get("a") == "raise" or "kind" in a and "a" not in a:
            fn(a)
            _walk_raises(a.get("sub") or [], fn)
        elif a.get("a") == "cleanup":
            _walk_raises(a["body"], fn)


STAGES = ("setUp_pre", "setUp_post", "body", "tearDown_pre", "tearDown_post")


def _max_id(x):
    if isinstance(x, dict):
        return max([x["i"] if isinstance(x.get("i"), int) else 0] + [_max_id(v) for v in x.values()])
    if isinstance(x, list):
        return max([0] + [_max_id(v) for v in x])
    return 0


def apply_mods(prog, mods):
    """-> a new program spec: ``prog`` with the variations of ``mods`` written into it."""
    prog = copy.deepcopy(prog)

    def reshape(a):
        if a["kind"] == "error" and mods.get("shape"):
            a["kind"] = mods["shape"]
        elif a["kind"] == "base" and mods.get("basegroup"):
            a["kind"] = "basegroup"
    for stage in STAGES:
        _walk_raises(prog[stage], reshape)
    if prog["decor"] == "expectedFailure":
        # (a clone of an @expectedFailure test runs its body on the instance it was copied from - C02 / C05 matter,
        # third audit B3 - so the two are not combined)
        last = prog["body"][-1] if prog["body"] else None
        if mods.get("xf_multi") and last and last["a"] == "raise" and P.klass(last["kind"]) in ("failure", "error", "skip"):
            # the decorated method raises MultipleExceptions; its constituents are Exceptions only: an interrupt
            # inside the container is swallowed by the decorator's wrapper on the current tree (third audit B2)
            n = _max_id(prog)
            prog["body"][-1] = {"a": "raise", "i": last["i"], "kind": "multi",
                                "sub": [{"kind": last["kind"], "i": n + 1}, {"kind": "error", "i": n + 2}]}
    elif mods.get("clone"):
        prog["clone"] = True
    if mods.get("reuse"):
        prog["reuse_exc"] = True
    return prog


def make_spec(prog, flavour, mods):
    spec = {"prog": apply_mods(prog, mods), "flavour": flavour}
    if mods.get("falsy"):
        spec["falsy"] = True
    return spec


CASE = st.builds(make_spec, PROG, st.sampled_from(R.FLAVOURS), MODS)
SKIP_STANDIN = -1       # id of the raise that stands for the wrapper of a skip decorator in the alternative model


def skip_alternative(prog):
    """The other admissible reading of a skip decorator: setUp, tearDown and the cleanups run and the test
    method raises the skip (what testtools did before it honoured __unittest_skip__)."""
    alt = dict(prog, decor="none", body=[{"a": "raise", "i": SKIP_STANDIN, "kind": "skip"}])
    m = P.Model(alt).run()
    m.log = [e for e in m.log if e != ("A", SKIP_STANDIN)]
    return m


def _bag(log):
    return sorted(repr(e) for e in log)


def _leaves(e):
    if isinstance(e, BaseExceptionGroup):
        for m in e.exceptions:
            yield from _leaves(m)
    else:
        yield e


def _stands_for(exc, o):
    """``exc`` left run() for the raised object ``o``: it is ``o`` itself or - ``o`` being a BaseExceptionGroup - a
    part of it that still does not derive from Exception: a (nested) member or a subgroup (split()) made of its
    very members."""
    if exc is o:
        return True
    if not isinstance(o, BaseExceptionGroup) or isinstance(exc, Exception):
        return False
    own = list(_leaves(o))
    part = list(_leaves(exc))
    return bool(part) and all(any(p is q for q in own) for p in part)


def check(spec, clauses=("bracket", "nonexc")):
    prog, flavour = spec["prog"], spec["flavour"]
    vs = []
    case = live = None
    rerun = bool(spec.get("rerun"))
    if rerun:
        # the checked run is the SECOND run of one case object: actions marked runs=[0] happened in a complete
        # earlier run against another result, those marked runs=[1] happen now; nothing of the earlier run may linger
        live = P.Live()
        first = R.run_program(prog, spec["rerun"], live=live)
        case = first["case"]
        del live.log[:]
        live.raised_objs.clear()
        live.multis.clear()
        live.exec_span = (10 ** 9, -1)
        live.run_no = 1
        # force_failure is an attribute the test sets on itself; testtools leaves it alone between runs (DESIGN 11.2)
        case.force_failure = bool(prog.get("force_outside"))
    model = P.Model(prog, run_no=1 if rerun else 0).run()
    obs = R.run_program(prog, flavour, case=case, live=live, falsy=bool(spec.get("falsy")))
    ev = obs["events"]
    names = [e[0] for e in ev]
    tag = flavour
    # ---- bracketing
    if flavour == "stream":
        # ("exists" announces a test id, it is neither the start nor an outcome of the run)
        core = [n for n in names if n not in ("startTestRun", "stopTestRun", "status:exists")]
        want_shape = core[:1] == ["startTest"] and len(core) == 2 and core[1] in OUTCOMES
        if not want_shape:
            vs.append(V("bracket", "stream-shape", "stream shows %r, expected inprogress then exactly one final status" % (core,)))
    else:
        core = [n for n in names if n not in ("startTestRun", "stopTestRun", "tags", "time", "stop")]
        if flavour == "none":
            # the statement does not ask for a run bracket around the default result: none at all is admitted, an
            # unbalanced or misplaced one is not
            run_evs = [n for n in names if n in ("startTestRun", "stopTestRun")]
            if run_evs and (run_evs != ["startTestRun", "stopTestRun"] or names[0] != "startTestRun" or names[-1] != "stopTestRun"):
                vs.append(V("bracket", "default-result-run-bracket", "result=None: events %r not bracketed by startTestRun/stopTestRun" % (names,)))
        ok = len(core) == 3 and core[0] == "startTest" and core[1] in OUTCOMES and core[2] == "stopTest"
        if not ok:
            n_out = sum(1 for n in core if n in OUTCOMES)
            b = "no-outcome" if n_out == 0 else ("%d-outcomes" % n_out if n_out > 1 else ("no-stopTest" if "stopTest" not in core else "order"))
            vs.append(V("bracket", "%s-%s" % (b, tag if b != "no-stopTest" else "any"), "events %r, expected [startTest, one outcome, stopTest]" % (core,)))
        else:
            tests = [e[1] for e in ev if e[0] in ("startTest", "stopTest") or e[0] in OUTCOMES]
            if any(t is not obs["case"] for t in tests):
                vs.append(V("bracket", "other-test", "events are about a different test object"))
            # the bracket encloses the test: no user code before startTest or after stopTest (the statement orders
            # the events only; user code between the outcome and stopTest is inside the bracket)
            lo, hi = obs["live"].exec_span
            if hi >= 0 and flavour != "none" and not rerun:       # (the case of a re-run was built around the first run's event log)
                i_start = names.index("startTest")
                i_stop = names.index("stopTest")
                if lo <= i_start or hi > i_stop:
                    vs.append(V("bracket", "user-code-outside-the-bracket", "user code ran while the result had seen %d..%d events; startTest is event %d, stopTest event %d (%r)" % (
                        lo, hi, i_start, i_stop, names)))
    outs = [n for n in names if n in OUTCOMES]
    # ---- decorated skips run nothing
    if model.skipped_by_decorator:
        alt = skip_alternative(prog)
        same = _bag(alt.log) == _bag(obs["live"].log)
        skipped = not outs or outs[0] == R.degrade("addSkip", flavour)
        if same and obs["live"].log:
            # setUp / tearDown / the cleanups ran around the skipping method: the statement does not say they must
            # not; the outcome is then whatever those stages made of it and the clauses below apply to this reading
            model = alt
        elif same and not skipped and (alt.force or prog.get("custom_skip") or any(r["i"] != SKIP_STANDIN for r in alt.raised)):
            # the same reading where the stages leave no trace in the execution log (nothing logged in them) and yet
            # decide the outcome: a setUp / tearDown that never upcalls, a failure forced from outside, a test
            # class whose skipException is unrelated to the SkipTest of the decorator
            model = alt
        else:
            if obs["live"].log:
                vs.append(V("decorator-skip", "ran-code", "a skip-decorated test executed %r" % (obs["live"].log[:5],)))
            if outs and outs[0] != R.degrade("addSkip", flavour):
                vs.append(V("decorator-skip", "outcome", "skip-decorated test reported %s" % outs[0]))
    # ---- non-Exception errors
    nonexc = [r for r in model.raised if P.klass(r["kind"]) == "nonexc"]
    if nonexc:
        if outs and outs[0] != R.degrade("addError", flavour):
            vs.append(V("nonexc", "not-error", "%s raised, reported as %s (raised kinds %r)" % (
                nonexc[0]["kind"], outs[0], [r["kind"] for r in model.raised])))
        if _bag(obs["live"].log) != _bag(model.log):
            # which stages ran, and how often - not in which order (the order of cleanups is C02's subject)
            vs.append(V("nonexc", "stages-skipped", "after %s the execution log is %r, reference interpreter says %r" % (
                nonexc[0]["kind"], obs["live"].log, model.log)))
        exc = obs["raised"]
        if exc is None:
            vs.append(V("nonexc", "swallowed", "%s did not propagate out of run() (raised kinds, in order: %r)" % (
                nonexc[0]["kind"], [(r["kind"], r["stage"]) for r in model.raised])))
        elif not any(_stands_for(exc, o) for r in nonexc for o in obs["live"].raised_objs.get(r["i"], [])):
            vs.append(V("nonexc", "other-exception", "run() raised %r, which is not one of the raised non-Exception errors" % (exc,)))
        if flavour != "stream" and "stopTest" not in names:
            vs.append(V("nonexc", "no-stopTest-before-propagation", "stopTest not delivered before the exception left run()"))
    elif obs["raised"] is not None:
        vs.append(V("run-raises", type(obs["raised"]).__name__, "run() raised %r although only Exception-derived errors were raised: %r" % (
            obs["raised"], [r["kind"] for r in model.raised])))
    stages = {r["stage"] for r in model.raised}
    nt = len(stages) >= 2 or bool(nonexc) or flavour != "ext"
    return vs, nt, model, obs, outs


def run_case(spec):
    vs, nt, model, obs, outs = check(spec)
    return Case(vs, nt, ["flavour=" + spec["flavour"], "raises=%d" % min(len(model.raised), 4),
                         "nonexc" if any(P.klass(r["kind"]) == "nonexc" for r in model.raised) else "",
                         "decor=" + spec["prog"]["decor"], "clone" if spec["prog"].get("clone") else "",
                         "reused-exception" if spec["prog"].get("reuse_exc") else "", "falsy-result" if spec.get("falsy") else "",
                         "second-run-of-the-object" if spec.get("rerun") else ""]
                + sorted({"kind=" + r["kind"] for r in model.raised}),
                {"events": [e[0] for e in obs["events"]], "raised": repr(obs["raised"])})


GRID_KINDS = [None, "fail", "error", "skip", "xfail", "uxsuccess", "multi", "kbi", "sysexit", "base", "multi_nested_empty"]


def grid_program(kinds, expect=False):
    """kinds: (setUp, body, tearDown, cleanup1, cleanup2) each a kind or None."""
    ids = itertools.count(1)

    def stage(k):
        acts = [{"a": "log", "i": next(ids)}]
        if k == "multi":
            acts.append({"a": "raise", "i": next(ids), "kind": "multi", "sub": [{"kind": "fail", "i": next(ids)}, {"kind": "error", "i": next(ids)}]})
        elif k == "multi_nested_empty":
            acts.append({"a": "raise", "i": next(ids), "kind": "multi", "sub": [{"kind": "multi", "i": next(ids), "sub": []}]})
        elif k is not None:
            acts.append({"a": "raise", "i": next(ids), "kind": k})
        return acts
    su, body, td, c1, c2 = kinds
    pre = [{"a": "cleanup", "i": next(ids), "args": False, "body": stage(c1)}]
    b = [{"a": "cleanup", "i": next(ids), "args": True, "body": stage(c2)}]
    if expect:
        b.append({"a": "expect", "i": next(ids), "ok": False, "dnames": []})
    return {"decor": "none", "setUp_pre": pre, "setUp_post": stage(su), "body": b + stage(body), "tearDown_pre": [],
            "tearDown_post": stage(td), "handlers": [], "handlers_when": "init", "cells": 0}


def _enum(full):
    def gen():
        kinds = GRID_KINDS if full else [None, "fail", "skip", "kbi", "multi_nested_empty"]
        flavours = R.FLAVOURS if full else ["ext", "py26", "stream"]
        for combo in itertools.product(kinds, repeat=5):
            for fl in flavours:
                yield {"prog": grid_program(combo), "flavour": fl}
            if full:
                yield {"prog": grid_program(combo, expect=True), "flavour": "ext"}
    return gen


def _enum_skip_reasons():
    """Every shape of skip reason x the stage that skips x every flavour, with and without something already
    recorded on the test (a failed expectation, an expected failure) when the skip arrives."""
    ids = itertools.count(1)
    for kind in ("skip", "skip_empty", "skip_noargs", "skip_int", "xf_skip"):
        for stage in ("setUp_pre", "setUp_post", "body", "tearDown_post", "cleanup"):
            for before in (None, "expect", "xfail", "detail-expect"):
                for fl in R.FLAVOURS:
                    prog = {"decor": "none", "setUp_pre": [], "setUp_post": [], "body": [], "tearDown_pre": [], "tearDown_post": [],
                            "handlers": [], "handlers_when": "init", "cells": 0}
                    raise_ = {"a": "raise", "i": next(ids), "kind": kind}
                    pre = []
                    if before in ("expect", "detail-expect"):
                        pre = [{"a": "expect", "i": next(ids), "ok": False, "dnames": ["log"] if before == "detail-expect" else []}]
                    if stage == "cleanup":
                        prog["body"] = [{"a": "cleanup", "i": next(ids), "args": False, "body": pre + [raise_]}]
                        if before == "xfail":
                            prog["body"].append({"a": "raise", "i": next(ids), "kind": "xfail"})
                    else:
                        if before == "xfail":
                            if stage != "tearDown_post":
                                continue
                            prog["body"] = [{"a": "raise", "i": next(ids), "kind": "xfail"}]
                        prog[stage] = pre + [raise_]
                    yield {"prog": prog, "flavour": fl}


def _enum_variants():
    """Small exhaustive grids behind the variations of MODS (each is rare in the random programs): a cloned case,
    unusual exception objects, exception objects that have been through another run, a falsy result object, a
    decorated expected failure raising MultipleExceptions - one faulty stage (two for equal-but-distinct errors),
    every flavour."""
    def at(stage, kind):
        combo = [None] * 5
        combo[stage] = kind
        return grid_program(combo)
    for fl in R.FLAVOURS:
        for stage in (0, 1, 3):
            for kind in (None, "fail", "error", "skip", "xfail", "uxsuccess", "kbi", "multi"):
                yield {"prog": dict(at(stage, kind), clone=True), "flavour": fl}
            for kind in ("fail", "error", "skip", "kbi", "sysexit", "error_dc", "multi"):
                yield {"prog": dict(at(stage, kind), reuse_exc=True), "flavour": fl}
        for kind in P.ERROR_SHAPES + P.NONEXC_SHAPES:
            for stage in range(5):
                yield {"prog": at(stage, kind), "flavour": fl}
            # the same shape raised by two stages (equal but distinct objects), and next to an interrupt
            yield {"prog": grid_program((None, kind, kind, None, kind)), "flavour": fl}
            yield {"prog": grid_program((None, "kbi", None, kind, None)), "flavour": fl}
        for kind in (None, "fail", "skip", "kbi"):
            yield {"prog": at(1, kind), "flavour": fl, "falsy": True}
        # one cleanup raises, another one registers a further (quiet) cleanup while the cleanups are running,
        # everything else is quiet: a cleanup loop that works in batches must carry the failure over
        for kind in ("fail", "error", "skip", "kbi"):
            for order in (0, 1):
                failing = {"a": "cleanup", "i": 90, "args": False, "body": [{"a": "log", "i": 91}, {"a": "raise", "i": 92, "kind": kind}]}
                registering = {"a": "cleanup", "i": 93, "args": False, "body": [
                    {"a": "log", "i": 94}, {"a": "cleanup", "i": 95, "args": False, "body": [{"a": "log", "i": 96}]}]}
                prog = at(1, None)
                prog["body"] = prog["body"][:1] + ([failing, registering] if order else [registering, failing]) + prog["body"][1:]
                yield {"prog": prog, "flavour": fl}
        for subs in (["fail", "error"], ["skip"], ["error", "skip", "fail"]):
            prog = at(1, None)
            prog["decor"] = "expectedFailure"
            prog["body"] = [{"a": "log", "i": 90}, {"a": "raise", "i": 91, "kind": "multi",
                                                    "sub": [{"kind": k, "i": 92 + n} for n, k in enumerate(subs)]}]
            yield {"prog": prog, "flavour": fl}


RERUN_KINDS = [None, "fail", "error", "skip", "xfail", "uxsuccess", "multi", "kbi", "sysexit"]


def _enum_rerun():
    """The same case object run twice: one faulty stage in the first run (against another result), one faulty
    stage - or none - in the second, which is the run that is checked."""
    def mark(acts, runs, off):
        for a in acts:
            if a["a"] == "raise":
                a["runs"] = runs
            a["i"] += off
            for sub in a.get("sub") or []:
                sub["i"] += off
            if a["a"] == "cleanup":
                mark(a["body"], runs, off)
    for s0 in range(5):
        for k0 in RERUN_KINDS[1:]:
            for s1 in range(5):
                for k1 in (RERUN_KINDS if s1 == s0 else RERUN_KINDS[:1] if s1 else [None, "fail", "kbi"]):
                    c0, c1 = [None] * 5, [None] * 5
                    c0[s0], c1[s1] = k0, k1
                    a, b = grid_program(c0), grid_program(c1)
                    for stage in STAGES:
                        mark(a[stage], [0], 0)
                        mark(b[stage], [1], 100)
                    # one set of cleanups (those of ``a``, registered in every run); the raises of ``b`` go next to
                    # the raises of ``a`` in the same stage lists
                    prog = a
                    prog["setUp_post"] += [x for x in b["setUp_post"] if x["a"] == "raise"]
                    prog["body"] += [x for x in b["body"] if x["a"] == "raise"]
                    prog["tearDown_post"] += [x for x in b["tearDown_post"] if x["a"] == "raise"]
                    prog["setUp_pre"][0]["body"] += [x for x in b["setUp_pre"][0]["body"] if x["a"] == "raise"]
                    prog["body"][0]["body"] += [x for x in b["body"][0]["body"] if x["a"] == "raise"]
                    for fl, fl0 in (("ext", "ext"), ("py26", "real"), ("real", "ext"), ("stream", "ext")):
                        yield {"prog": prog, "flavour": fl, "rerun": fl0}


def subchecks(tier):
    q = tier == "quick"
    return [
        Sub("random_programs", run_case, CASE, 4000 if q else 60000),
        Sub("skip_reason_grid", run_case, enum=_enum_skip_reasons, enum_complete=True,
            note="5 skip shapes (text, empty, no argument, non-text, raised inside expectFailure) x 5 stages x "
                 "{nothing, failed expectThat, expectThat with details, expected failure} recorded before x 9 flavours"),
        Sub("variant_grid", run_case, enum=_enum_variants, enum_complete=True,
            note="clone x 8 behaviours x 3 stages; reused exception object x 7 behaviours x 3 stages; dataclass / "
                 "equal-to-all / ExceptionGroup / BaseExceptionGroup x 5 stages (+ twice in one run, + next to an "
                 "interrupt); falsy result x 4 behaviours; a failing cleanup next to a cleanup that registers another x 4 behaviours x 2 orders; @expectedFailure body raising MultipleExceptions x 3; x 9 flavours"),
        Sub("rerun_grid", run_case, enum=_enum_rerun, enum_complete=True,
            note="the second run of one case object: 8 behaviours x 5 stages in the first run x {9 behaviours in the same stage, "
                 "nothing / fail / interrupt in setUp, nothing elsewhere} in the second x 4 flavour pairs"),
        Sub("fault_grid", run_case, enum=_enum(not q), enum_complete=True,
            note=("10 behaviours ^ 5 stages x 9 flavours (+ expectThat variant)" if not q else "5 behaviours ^ 5 stages x 3 flavours")),
    ]
