"""C01 - every test run is bracketed and yields exactly one outcome."""
import itertools

from hypothesis import strategies as st

from vp.core import Case, Sub, V
from vp import programs as P
from vp import progrun as R
from vp.results import OUTCOMES

PROPERTY = "C01"
RULE = ("Generated test programs (setUp before/after the upcall, test method, tearDown before/after the upcall, "
        "nested cleanups registered anywhere, expectThat/assertThat mismatches, force_failure, skip decorators; every "
        "stage may raise failure / error / skip / expected failure / unexpected success / MultipleExceptions / "
        "KeyboardInterrupt / SystemExit / a custom BaseException; skips with an empty reason, exceptions whose bool() is "
        "False, expectFailure around a callable raising an error or a skip) run against 9 result flavours (2.6-style, 2.7-style, "
        "extended, Twisted-style, testtools.TestResult, StreamResult behind ExtendedToStreamDecorator, result=None); "
        "oracle: the event log is exactly startTest, one outcome, stopTest; a non-Exception error is reported as an "
        "error, all later stages still run (execution log equals the reference interpreter's) and the very exception "
        "object propagates out of run() after stopTest. Thorough adds the exhaustive grid of 10 behaviours x 5 "
        "stages. Non-trivial: >= 2 stages raise, or a non-Exception is raised, or flavour != extended; distinct = "
        "distinct canonical (program, flavour).")
ASSUMPTIONS = [
    "user handlers are only generated for Exception subclasses",
    "when two non-Exception errors are raised either may propagate",
    "addOnException handlers that raise are outside the domain (documented to abort the run)",
]

PROG = P.programs(nonexc=True, multi=True, expect=True, force=True, decor=True, cleanup_depth=2, p_raise=4, extras=True,
                  nonexc_more=True, texts=True, rets=True, upcall=True)
CASE = st.fixed_dictionaries({"prog": PROG, "flavour": st.sampled_from(R.FLAVOURS)})


def check(spec, clauses=("bracket", "nonexc")):
    prog, flavour = spec["prog"], spec["flavour"]
    vs = []
    model = P.Model(prog).run()
    admissible, propagates = model.admissible()
    obs = R.run_program(prog, flavour)
    ev = obs["events"]
    names = [e[0] for e in ev]
    tag = flavour
    # ---- bracketing
    if flavour == "stream":
        core = [n for n in names if n not in ("startTestRun", "stopTestRun")]
        want_shape = core[:1] == ["startTest"] and len(core) == 2 and core[1] in OUTCOMES
        if not want_shape:
            vs.append(V("bracket", "stream-shape", "stream shows %r, expected inprogress then exactly one final status" % (core,)))
    else:
        core = [n for n in names if n not in ("startTestRun", "stopTestRun", "tags", "time", "stop")]
        if flavour == "none":
            if names[:1] != ["startTestRun"] or names[-1:] != ["stopTestRun"]:
                vs.append(V("bracket", "default-result-run-bracket", "result=None: events %r not bracketed by startTestRun/stopTestRun" % (names,)))
        ok = len(core) == 3 and core[0] == "startTest" and core[1] in OUTCOMES and core[2] == "stopTest"
        if not ok:
            n_out = sum(1 for n in core if n in OUTCOMES)
            b = "no-outcome" if n_out == 0 else ("%d-outcomes" % n_out if n_out > 1 else ("no-stopTest" if "stopTest" not in core else "order"))
            vs.append(V("bracket", "%s-%s" % (b, tag if b != "no-stopTest" else "any"), "events %r, expected [startTest, one outcome, stopTest]" % (core,)))
        else:
            tests = [e[1] for e in ev if e[0] in ("startTest", "stopTest") or e[0] in OUTCOMES]
            if any(t is not obs["case"] for t in tests):
                vs.append(V("bracket", "other-test", "events are about a different test object"))
            # the bracket encloses the test: no user code before startTest or after the outcome was reported
            lo, hi = obs["live"].exec_span
            if hi >= 0 and flavour != "none":
                i_start = names.index("startTest")
                i_out = next(i for i, n in enumerate(names) if n in OUTCOMES)
                if lo <= i_start or hi > i_out:
                    vs.append(V("bracket", "user-code-outside-the-bracket", "user code ran while the result had seen %d..%d events; startTest is event %d, the outcome event %d (%r)" % (
                        lo, hi, i_start, i_out, names)))
    outs = [n for n in names if n in OUTCOMES]
    # ---- decorated skips run nothing
    if model.skipped_by_decorator:
        if obs["live"].log:
            vs.append(V("decorator-skip", "ran-code", "a skip-decorated test executed %r" % (obs["live"].log[:5],)))
        if outs and outs[0] != R.degrade("addSkip", flavour):
            vs.append(V("decorator-skip", "outcome", "skip-decorated test reported %s" % outs[0]))
    # ---- non-Exception errors
    nonexc = [r for r in model.raised if P.klass(r["kind"]) == "nonexc"]
    if nonexc:
        if outs and outs[0] != R.degrade("addError", flavour):
            vs.append(V("nonexc", "not-error", "%s raised, reported as %s (raised kinds %r)" % (
                nonexc[0]["kind"], outs[0], [r["kind"] for r in model.raised])))
        if obs["live"].log != model.log:
            vs.append(V("nonexc", "stages-skipped", "after %s the execution log is %r, reference interpreter says %r" % (
                nonexc[0]["kind"], obs["live"].log, model.log)))
        exc = obs["raised"]
        if exc is None:
            vs.append(V("nonexc", "swallowed", "%s did not propagate out of run() (raised kinds, in order: %r)" % (
                nonexc[0]["kind"], [(r["kind"], r["stage"]) for r in model.raised])))
        elif not any(exc is o for r in nonexc for o in obs["live"].raised_objs.get(r["i"], [])):
            vs.append(V("nonexc", "other-exception", "run() raised %r, which is not one of the raised non-Exception errors" % (exc,)))
        if flavour != "stream" and "stopTest" not in names:
            vs.append(V("nonexc", "no-stopTest-before-propagation", "stopTest not delivered before the exception left run()"))
    elif obs["raised"] is not None:
        vs.append(V("run-raises", type(obs["raised"]).__name__, "run() raised %r although only Exception-derived errors were raised: %r" % (
            obs["raised"], [r["kind"] for r in model.raised])))
    stages = {r["stage"] for r in model.raised}
    nt = len(stages) >= 2 or bool(nonexc) or flavour != "ext"
    return vs, nt, model, obs, outs


def run_case(spec):
    vs, nt, model, obs, outs = check(spec)
    return Case(vs, nt, ["flavour=" + spec["flavour"], "raises=%d" % min(len(model.raised), 4),
                         "nonexc" if any(P.klass(r["kind"]) == "nonexc" for r in model.raised) else "",
                         "decor=" + spec["prog"]["decor"]] + sorted({"kind=" + r["kind"] for r in model.raised}),
                {"events": [e[0] for e in obs["events"]], "raised": repr(obs["raised"])})


GRID_KINDS = [None, "fail", "error", "skip", "xfail", "uxsuccess", "multi", "kbi", "sysexit", "base", "multi_nested_empty"]


def grid_program(kinds, expect=False):
    """kinds: (setUp, body, tearDown, cleanup1, cleanup2) each a kind or None."""
    ids = itertools.count(1)

    def stage(k):
        acts = [{"a": "log", "i": next(ids)}]
        if k == "multi":
            acts.append({"a": "raise", "i": next(ids), "kind": "multi", "sub": [{"kind": "fail", "i": next(ids)}, {"kind": "error", "i": next(ids)}]})
        elif k == "multi_nested_empty":
            acts.append({"a": "raise", "i": next(ids), "kind": "multi", "sub": [{"kind": "multi", "i": next(ids), "sub": []}]})
        elif k is not None:
            acts.append({"a": "raise", "i": next(ids), "kind": k})
        return acts
    su, body, td, c1, c2 = kinds
    pre = [{"a": "cleanup", "i": next(ids), "args": False, "body": stage(c1)}]
    b = [{"a": "cleanup", "i": next(ids), "args": True, "body": stage(c2)}]
    if expect:
        b.append({"a": "expect", "i": next(ids), "ok": False, "dnames": []})
    return {"decor": "none", "setUp_pre": pre, "setUp_post": stage(su), "body": b + stage(body), "tearDown_pre": [],
            "tearDown_post": stage(td), "handlers": [], "handlers_when": "init", "cells": 0}


def _enum(full):
    def gen():
        kinds = GRID_KINDS if full else [None, "fail", "skip", "kbi", "multi_nested_empty"]
        flavours = R.FLAVOURS if full else ["ext", "py26", "stream"]
        for combo in itertools.product(kinds, repeat=5):
            for fl in flavours:
                yield {"prog": grid_program(combo), "flavour": fl}
            if full:
                yield {"prog": grid_program(combo, expect=True), "flavour": "ext"}
    return gen


def _enum_skip_reasons():
    """Every shape of skip reason x the stage that skips x every flavour, with and without something already
    recorded on the test (a failed expectation, an expected failure) when the skip arrives."""
    ids = itertools.count(1)
    for kind in ("skip", "skip_empty", "skip_noargs", "skip_int", "xf_skip"):
        for stage in ("setUp_pre", "setUp_post", "body", "tearDown_post", "cleanup"):
            for before in (None, "expect", "xfail", "detail-expect"):
                for fl in R.FLAVOURS:
                    prog = {"decor": "none", "setUp_pre": [], "setUp_post": [], "body": [], "tearDown_pre": [], "tearDown_post": [],
                            "handlers": [], "handlers_when": "init", "cells": 0}
                    raise_ = {"a": "raise", "i": next(ids), "kind": kind}
                    pre = []
                    if before in ("expect", "detail-expect"):
                        pre = [{"a": "expect", "i": next(ids), "ok": False, "dnames": ["log"] if before == "detail-expect" else []}]
                    if stage == "cleanup":
                        prog["body"] = [{"a": "cleanup", "i": next(ids), "args": False, "body": pre + [raise_]}]
                        if before == "xfail":
                            prog["body"].append({"a": "raise", "i": next(ids), "kind": "xfail"})
                    else:
                        if before == "xfail":
                            if stage != "tearDown_post":
                                continue
                            prog["body"] = [{"a": "raise", "i": next(ids), "kind": "xfail"}]
                        prog[stage] = pre + [raise_]
                    yield {"prog": prog, "flavour": fl}


def subchecks(tier):
    q = tier == "quick"
    return [
        Sub("random_programs", run_case, CASE, 4000 if q else 60000),
        Sub("skip_reason_grid", run_case, enum=_enum_skip_reasons, enum_complete=True,
            note="5 skip shapes (text, empty, no argument, non-text, raised inside expectFailure) x 5 stages x "
                 "{nothing, failed expectThat, expectThat with details, expected failure} recorded before x 9 flavours"),
        Sub("fault_grid", run_case, enum=_enum(not q), enum_complete=True,
            note=("10 behaviours ^ 5 stages x 9 flavours (+ expectThat variant)" if not q else "5 behaviours ^ 5 stages x 3 flavours")),
    ]
