"""C08 - result adapters deliver each call once, at the richest protocol the target has."""
import threading

from hypothesis import strategies as st

from vp.core import Case, Sub, V
from vp import history as H
from vp.results import Ext, Py26, Py27, Twisted, OUTCOMES

PROPERTY = "C08"
RULE = ("Model-based TestResult histories (startTestRun, tags, time, startTest, six outcomes as exc_info or details, "
        "stopTest, stop/done/progress; reported tests = TestCase / PlaceHolder / ErrorHolder) x generated adapter "
        "trees of depth 1..3 over ExtendedToOriginalDecorator, MultiTestResult (2 targets), TestResultDecorator, "
        "Tagger, ThreadsafeForwardingResult and TestByTestResult leaves x five target flavours (2.6-style, "
        "2.7-style, extended, Twisted-style, real testtools.TestResult); every innermost target's log is compared "
        "with the input history mapped through the documented degradation table. Also generated: err=/reason= by keyword, MultiTestResult of 1..3 results, tests sharing an id or reported again as the same object, one details dict object handed to several calls (the oracle compares against a private copy and checks the dict is left as it was), exact detail names, run-level call counts at the targets, the outermost adapter's own verdict. "
        "Non-trivial: stack depth >= 2, or "
        "a degrading flavour, or the details->exception/reason fallback taken; distinct = distinct canonical "
        "(stack, history).")
ASSUMPTIONS = [
    "TestResultDecorator / Tagger are only placed over results that speak the extended protocol (they forward details= verbatim)",
    "for addUnexpectedSuccess the TestByTestResult status word is only required to be one of the documented five",
    "below a ThreadsafeForwardingResult the stop time / tags a TestByTestResult sees are those at the outcome "
    "(the forwarder replays the test at that moment)",
    "the verdict of 2.7-style / Twisted-style recorders after addUnexpectedSuccess is theirs; only delivery is asserted",
]

FLAVOURS = ["py26", "py27", "ext", "twisted", "real"]


def leafs(extended_only):
    fl = ["ext", "real"] if extended_only else FLAVOURS
    return st.one_of(st.builds(lambda f: {"a": "target", "flavour": f}, st.sampled_from(fl)),
                     st.builds(lambda: {"a": "TBT"}))


def node(depth, extended_only=False):
    if depth == 0:
        return leafs(extended_only)
    anykid = node(depth - 1, False)
    extkid = node(depth - 1, True)
    tagset = st.sets(st.sampled_from(H.TAGS), max_size=2).map(sorted)
    opts = [
        st.builds(lambda c: {"a": "ETOD", "child": c}, anykid),
        st.builds(lambda kids: {"a": "Multi", "children": kids}, st.lists(anykid, min_size=1, max_size=3)),
        st.builds(lambda c: {"a": "TSFR", "child": c}, anykid),
        st.builds(lambda c: {"a": "Decorator", "child": c}, extkid),
        st.builds(lambda c, n, g: {"a": "Tagger", "child": c, "new": n, "gone": [x for x in g if x not in n]}, extkid, tagset, tagset),
    ]
    if extended_only:
        return st.one_of(leafs(True), *opts)
    return st.one_of(*opts)


STACK = st.one_of(node(1), node(2), node(3))
HIST = H.s_history(max_tests=4, with_control=True, test_kinds=("case", "placeholder", "errorholder"), max_ops=26)
CASE = st.fixed_dictionaries({"stack": STACK, "history": HIST,
                              # several tests may share an id (id_mod) and may be the very same object reported again (reuse)
                              "id_mod": st.sampled_from([99, 99, 99, 2, 1]), "reuse": st.booleans(), "share_details": st.sampled_from([False, True, "refill"])})


def build(n, path, targets, tbts):
    """-> live result.  path = list of adapter names from the outside in."""
    import testtools
    from testtools.testresult import real
    a = n["a"]
    if a == "target":
        f = n["flavour"]
        if f == "real":
            class Probe(testtools.TestResult):
                def __init__(self):
                    super().__init__()
                    self.events = []
                    self.flavour = "real"

                def startTest(self, test):
                    self.events.append(("startTest", test, {}))
                    super().startTest(test)

                def stopTest(self, test):
                    self.events.append(("stopTest", test, {}))
                    super().stopTest(test)
            for m in OUTCOMES:
                def mk(m):
                    def f_(self, test, *a, **kw):
                        det = kw.get("details")
                        from vp.results import snap_details
                        ctx = {"details": snap_details(det)} if det is not None else {}
                        if a and a[0] is not None:
                            ctx["err" if m != "addSkip" else "reason"] = a[0]
                        if kw.get("err") is not None:
                            ctx["err"] = kw["err"]
                        if kw.get("reason") is not None:
                            ctx["reason"] = kw["reason"]
                        self.events.append((m, test, ctx))
                        return getattr(testtools.TestResult, m)(self, test, *a, **kw)
                    return f_
                setattr(Probe, m, mk(m))
            t = Probe()
        else:
            t = {"py26": Py26, "py27": Py27, "ext": Ext, "twisted": Twisted}[f]()
        targets.append((t, list(path), f))
        return t
    if a == "TBT":
        calls = []
        r = real.TestByTestResult(lambda **kw: calls.append(dict(kw, _details_snap=None if kw["details"] is None else {
            k: b"".join(c.iter_bytes()) for k, c in kw["details"].items()})))
        tbts.append((r, calls, list(path)))
        return r
    if a == "ETOD":
        return testtools.ExtendedToOriginalDecorator(build(n["child"], path + ["ETOD"], targets, tbts))
    if a == "Multi":
        return testtools.MultiTestResult(*[build(c, path + ["Multi"], targets, tbts) for c in n["children"]])
    if a == "TSFR":
        return testtools.ThreadsafeForwardingResult(build(n["child"], path + ["TSFR"], targets, tbts), threading.Semaphore(1))
    if a == "Decorator":
        return real.TestResultDecorator(build(n["child"], path + ["Decorator"], targets, tbts))
    if a == "Tagger":
        # the tag arguments are any iterables: hand over one-shot iterators
        return real.Tagger(build(n["child"], path + [("Tagger", tuple(n["new"]), tuple(n["gone"]))], targets, tbts),
                           iter(list(n["new"])), iter(list(n["gone"])))
    raise AssertionError(a)


def depth(n):
    kids = n.get("children") or ([n["child"]] if "child" in n else [])
    return 1 + max([depth(k) for k in kids] or [0]) if kids else 0


def degrade(kind, flavour):
    m = H.METHOD[kind]
    if flavour == "py26":
        return {"addSkip": "addSuccess", "addExpectedFailure": "addSuccess", "addUnexpectedSuccess": "addFailure"}.get(m, m)
    return m


def exc_text(err):
    try:
        return str(err[1])
    except Exception as e:
        return "<unprintable %r>" % e


def run_case(spec):
    vs = []
    targets, tbts = [], []
    r = build(spec["stack"], [], targets, tbts)
    tags = H.TagModel()
    now = None
    cur = None
    reported = []      # per test: dict(test, kind, info, tags_at_outcome, tags_at_stop, start, out_time, stop)
    fallback = False
    tbt_models = [H.TagModel() for _ in tbts]      # the reporter's tags plus what Taggers on the path add per test
    tbt_seen = [[] for _ in tbts]                  # per test: (tags at outcome, tags at stopTest)

    made = {}
    shared_details = {} if spec.get("share_details") else None     # one dict object per distinct set of attachments
    if spec.get("share_details") == "refill":
        shared_details = {"<refill>": {}}                          # ... or one dict for the whole history, refilled

    def each_model(fn):
        for m in tbt_models:
            fn(m)
    for n, op in enumerate(spec["history"]["ops"]):
        k = op["op"]
        try:
            if k == "startTestRun":
                r.startTestRun()
                tags.start_run()
                each_model(lambda m: m.start_run())
                now = None
            elif k == "stopTestRun":
                r.stopTestRun()
            elif k == "tags":
                r.tags(set(op["new"]), set(op["gone"]))
                tags.change(op["new"], op["gone"])
                each_model(lambda m: m.change(op["new"], op["gone"]))
            elif k == "time":
                now = H.ts(op["t"])
                r.time(now)
            elif k == "startTest":
                key = (op["i"] % spec.get("id_mod", 99), op["tk"])
                if spec.get("reuse") and key in made:
                    cur = made[key]
                else:
                    cur = made[key] = H.make_test(key[0], op["tk"])
                r.startTest(cur)
                tags.start_test()
                for (r_, calls_, path_), m in zip(tbts, tbt_models):
                    m.start_test()
                    for step in reversed(path_):       # the innermost Tagger tags first
                        if isinstance(step, tuple):
                            m.change(step[1], step[2])
                reported.append({"test": cur, "start": now})
            elif k == "outcome":
                e = reported[-1]
                e["kind"] = op["kind"]
                e["marker"] = "MARK-%d-" % op["marker"]
                e["tags_at_outcome"] = frozenset(tags.current)
                e["out_time"] = now
                e["payload"] = op["payload"]
                e["tbt_out"] = [frozenset(m.current) for m in tbt_models]
                e["info"] = H.outcome_call(r, cur, op, shared=shared_details)
                live_d = e["info"].get("details_live")
                if live_d is not None and set(live_d) != set(e["info"]["details"]):
                    vs.append(V("caller-args", "details-dict-mutated", "the details dict handed to %s has keys %r afterwards, was %r" % (
                        H.METHOD[op["kind"]], sorted(live_d), sorted(e["info"]["details"]))))
            elif k == "stopTest":
                reported[-1]["tags_at_stop"] = frozenset(tags.current)
                reported[-1]["stop"] = now
                reported[-1]["tbt_stop"] = [frozenset(m.current) for m in tbt_models]
                r.stopTest(cur)
                tags.stop_test()
                each_model(lambda m: m.stop_test())
            elif k in ("stop", "done", "progress"):
                # control calls are part of the histories (they must not disturb delivery) but the
                # statement does not promise that every adapter implements them
                try:
                    if k == "progress":
                        r.progress(op["offset"], op["whence"])
                    else:
                        getattr(r, k)()
                except AttributeError:
                    pass
        except Exception as e:
            if type(e).__module__.startswith("vp."):
                raise
            kind = reported[-1].get("kind") if reported and k == "outcome" else ""
            tk = type(cur).__name__ if cur is not None else ""
            vs.append(V("call-raises", "%s-%s-%s-%s" % (k, kind, type(e).__name__, tk if k == "outcome" else ""),
                        "%s raised %r through stack %r" % (k, e, spec["stack"])))
            return Case(vs, True, ["raised"])
    reported = [e for e in reported if "kind" in e and "stop" in e]

    for t, path, flavour in targets:
        evs = [e for e in t.events if e[0] in ("startTest", "stopTest") or e[0] in OUTCOMES]
        want = []
        for e in reported:
            want += [("startTest", e), (degrade(e["kind"], flavour), e), ("stopTest", e)]
        got_names = [(e[0], e[1].id()) for e in evs]
        want_names = [(w[0], w[1]["test"].id()) for w in want]
        if got_names != want_names:
            # classify
            if len(got_names) < len(want_names):
                b = "dropped"
            elif len(got_names) > len(want_names):
                b = "duplicated"
            elif sorted(got_names) == sorted(want_names):
                b = "reordered"
            else:
                b = "wrong-outcome"
            vs.append(V("delivery", "%s-%s" % (b, flavour), "target %s behind %r received %r, expected %r" % (flavour, path, got_names, want_names)))
            continue
        for ev, (wname, e) in zip(evs, want):
            if ev[1] is not e["test"]:
                vs.append(V("delivery", "test-identity", "target received a different test object"))
            if ev[0] not in OUTCOMES:
                continue
            ctx = ev[2]
            info = e["info"]
            sent_details = info["details"]
            if flavour in ("ext", "real"):
                if sent_details is not None:
                    det = ctx.get("details")
                    if det is None:
                        vs.append(V("richest-protocol", "details-not-passed-" + flavour, "%s: details were degraded for a target with the details protocol" % wname))
                    else:
                        for name, c in sent_details.items():
                            data = b"".join(c.iter_bytes())
                            if name not in det or det[name][2] != data:
                                vs.append(V("richest-protocol", "detail-changed", "detail %r arrived as %r" % (name, det.get(name))))
                        if set(det) != set(sent_details):
                            vs.append(V("richest-protocol", "detail-names", "%s: details %r were sent, %r arrived" % (wname, sorted(sent_details), sorted(det))))
                elif info["err"] is not None:
                    if ctx.get("err") is not info["err"] and not (ctx.get("details") and "traceback" in ctx["details"]):
                        vs.append(V("richest-protocol", "err-lost", "%s: exc_info not delivered" % wname))
                elif info["reason"] is not None and wname == "addSkip":
                    got_reason = ctx.get("reason")
                    if got_reason is None and ctx.get("details") and "reason" in ctx["details"]:
                        got_reason = ctx["details"]["reason"][2].decode("utf8")
                    if got_reason != info["reason"]:
                        vs.append(V("richest-protocol", "reason", "skip reason %r arrived as %r" % (info["reason"], got_reason)))
            else:
                # degraded targets: details become a synthetic exception or a reason containing the text
                if wname in ("addError", "addFailure", "addExpectedFailure") and e["kind"] != "uxsuccess":
                    err = ctx.get("err")
                    if err is None:
                        vs.append(V("degrade", "no-err-" + flavour, "%s delivered without exc_info" % wname))
                    elif sent_details is not None:
                        fallback = True
                        text = exc_text(err)
                        for name, c in sent_details.items():
                            if c.content_type.type == "text":
                                want_text = c.as_text().strip()
                                if want_text and want_text not in text:
                                    vs.append(V("degrade", "detail-text-missing-" + flavour, "text of detail %r (%r) not in the synthetic exception %r" % (name, want_text, text)))
                    elif err is not info["err"]:
                        vs.append(V("degrade", "err-replaced-" + flavour, "%s: exc_info replaced" % wname))
                if wname == "addSkip":
                    reason = ctx.get("reason")
                    if info["reason"] is not None:
                        if sent_details is not None:
                            fallback = True
                        if reason != info["reason"]:
                            vs.append(V("degrade", "skip-reason-" + flavour, "skip reason %r arrived as %r" % (info["reason"], reason)))
                    elif sent_details is not None:
                        fallback = True
                        if not isinstance(reason, str):
                            vs.append(V("degrade", "skip-reason-type-" + flavour, "reason is %r" % (reason,)))
                        else:
                            for name, c in sent_details.items():
                                if c.content_type.type == "text":
                                    wt = c.as_text().strip()
                                    if wt and wt not in reason:
                                        vs.append(V("degrade", "skip-detail-text-missing-" + flavour, "text of detail %r not in reason %r" % (name, reason)))
        if flavour == "ext":
            # run-level calls reach the target once each
            for name in ("startTestRun", "stopTestRun"):
                sent = sum(1 for o in spec["history"]["ops"] if o["op"] == name)
                got = sum(1 for e in t.events if e[0] == name)
                if got != sent:
                    vs.append(V("delivery", "%s-count" % name, "%d %s calls were made, target behind %r received %d" % (sent, name, path, got)))
        bad = any(e["kind"] in ("error", "failure") or (e["kind"] == "uxsuccess" and flavour in ("py26", "ext", "real", "py27")) for e in reported)
        # the run may have been restarted: only assert when the last startTestRun precedes every bad outcome
        ops = spec["history"]["ops"]
        last_start = max([i for i, o in enumerate(ops) if o["op"] == "startTestRun"] or [-1])
        bad_after = any(o["op"] == "outcome" and (o["kind"] in ("error", "failure") or (o["kind"] == "uxsuccess" and flavour in ("py26", "ext", "real", "py27")))
                        for o in ops[last_start + 1:])
        resets = flavour in ("ext", "real")
        if (bad_after or (bad and not resets)) and t.wasSuccessful():
            vs.append(V("verdict", "failing-became-passing-" + flavour, "history has a failing outcome but target %s behind %r says wasSuccessful()" % (flavour, path)))

    # the verdict asked of the outermost adapter itself
    if targets and not vs:
        ops_ = spec["history"]["ops"]
        last_start_ = max([i for i, o in enumerate(ops_) if o["op"] == "startTestRun"] or [-1])

        def must_fail(flavour):
            badk = lambda o: o["op"] == "outcome" and (o["kind"] in ("error", "failure") or (o["kind"] == "uxsuccess" and flavour in ("py26", "ext", "real", "py27")))
            reported_ids = {id(e) for e in reported}
            return any(badk(o) for o in ops_[last_start_ + 1:]) and all(id(e) in reported_ids for e in reported)
        if all(must_fail(f) for _, _, f in targets) and all("kind" in e for e in reported):
            # every wrapped result has been given a failing outcome since its last startTestRun
            completed_bad = any(e["kind"] in ("error", "failure") for e in reported[-1:]) or True
            try:
                verdict = r.wasSuccessful()
            except AttributeError:
                verdict = None
            bad_done = [o for o in ops_[last_start_ + 1:] if o["op"] == "outcome" and o["kind"] in ("error", "failure")]
            if verdict is True and bad_done and all(t.wasSuccessful() is False for t, _, _ in targets):
                vs.append(V("verdict", "adapter-says-successful", "every wrapped result says wasSuccessful() False, the outermost adapter of %r says True" % (spec["stack"],)))

    for r_, calls, path in tbts:
        under_tsfr = "TSFR" in path
        if len(calls) != len(reported):
            vs.append(V("test-by-test", "callback-count", "%d callbacks for %d tests (path %r)" % (len(calls), len(reported), path)))
            continue
        for c, e in zip(calls, reported):
            if c["test"] is not e["test"]:
                vs.append(V("test-by-test", "test", "callback for the wrong test"))
            want_status = {"success": "success", "error": "error", "failure": "failure", "skip": "skip", "xfail": "xfail"}.get(e["kind"])
            if want_status is None:
                if c["status"] not in ("success", "failure", "error", "skip", "xfail"):
                    vs.append(V("test-by-test", "status-word", "status %r for an unexpected success" % (c["status"],)))
            elif c["status"] != want_status:
                vs.append(V("test-by-test", "status-" + e["kind"], "status %r for %s" % (c["status"], e["kind"])))
            if e["start"] is not None and c["start_time"] != e["start"]:
                vs.append(V("test-by-test", "start-time", "start_time %r, time() at startTest was %r" % (c["start_time"], e["start"])))
            stops = {e["stop"]} | ({e["out_time"]} if under_tsfr else set())
            if None not in stops and c["stop_time"] not in stops:
                vs.append(V("test-by-test", "stop-time", "stop_time %r, time() at stopTest was %r" % (c["stop_time"], e["stop"])))
            if c["start_time"] is None or c["stop_time"] is None:
                vs.append(V("test-by-test", "time-none", "start/stop time missing"))
            else:
                # without an explicit time() in force the clock is the wall clock, not some earlier run's value
                for which, supplied, got in (("start", e["start"], c["start_time"]), ("stop", e["stop"], c["stop_time"])):
                    if supplied is None and not under_tsfr and got.year < 2020:
                        vs.append(V("test-by-test", "stale-%s-time" % which, "%s_time is %r although no time() value was in force (a new run started since the last one)" % (which, got)))
            # tags: the reporter's tags at stopTest after the per-test changes of the Taggers on the path
            idx = [x[0] for x in tbts].index(r_)
            want_tags = set(e["tbt_out"][idx] if under_tsfr else e["tbt_stop"][idx])
            tagger_below_tsfr = under_tsfr and any(isinstance(s_, tuple) for s_ in path[path.index("TSFR"):])
            if not tagger_below_tsfr and set(c["tags"]) != want_tags:
                vs.append(V("test-by-test", "tags", "tags %r, expected %r (path %r)" % (sorted(c["tags"]), sorted(want_tags), path)))
            info = e["info"]
            det = c["_details_snap"]
            if info["details"] is not None and det is not None and set(det) - set(info["details"]) - {"traceback", "reason"}:
                vs.append(V("test-by-test", "details-extra", "details %r were sent, the callback got %r" % (sorted(info["details"]), sorted(det))))
            if info["details"] is not None:
                for name, cont in info["details"].items():
                    data = b"".join(cont.iter_bytes())
                    if det is None or det.get(name) != data:
                        vs.append(V("test-by-test", "details", "detail %r arrived as %r" % (name, None if det is None else det.get(name))))
            if info["err"] is not None:
                if det is None or not any(e["marker"].encode() in v for v in det.values()):
                    vs.append(V("test-by-test", "traceback", "no traceback detail with marker %s: %r" % (e["marker"], det and sorted(det))))
            if e["kind"] == "skip" and info["reason"]:
                if det is None or det.get("reason") != info["reason"].encode("utf8"):
                    vs.append(V("test-by-test", "reason", "skip reason %r arrived as %r" % (info["reason"], det and det.get("reason"))))
    d = depth(spec["stack"])
    degr = any(f in ("py26", "py27", "twisted") for _, _, f in targets)
    nt = d >= 2 or degr or fallback
    return Case(vs, nt, ["depth=%d" % d, "degrading" if degr else "", "fallback" if fallback else "", "tbt" if tbts else "",
                         "targets=%d" % len(targets)] + sorted({"flavour=" + f for _, _, f in targets}),
                {"tests": len(reported)})


def subchecks(tier):
    q = tier == "quick"
    return [Sub("adapter_stacks", run_case, CASE, 2500 if q else 160000)]
