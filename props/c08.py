"""C08 - result adapters deliver each call once, at the richest protocol the target has."""
import threading

from hypothesis import strategies as st

from vp.core import Case, Sub, V
from vp import history as H
from vp.results import Ext, Py26, Py27, Twisted, OUTCOMES

PROPERTY = "C08"
RULE = ("Model-based TestResult histories (startTestRun, tags, time, startTest, six outcomes as exc_info or details, "
        "stopTest, stop/done/progress; reported tests = TestCase / PlaceHolder / ErrorHolder) x generated adapter "
        "trees of depth 1..3 over ExtendedToOriginalDecorator, MultiTestResult (2 targets), TestResultDecorator, "
        "Tagger, ThreadsafeForwardingResult and TestByTestResult leaves x five target flavours (2.6-style, "
        "2.7-style, extended, Twisted-style, real testtools.TestResult); every innermost target's log is compared "
        "with the input history mapped through the documented degradation table. Also generated: err=/reason= by keyword, MultiTestResult of 1..3 results, tests sharing an id or reported again as the same object, one details dict object handed to several calls (the oracle compares against a private, frozen copy taken at the call), no detail name missing and no extra detail that repeats what the reporter attached elsewhere, run-level call counts at the targets, the outermost adapter's own verdict (must be False as soon as one wrapped result that has to count a failing outcome of the current run says False). "
        "Also: the content type (type, subtype, parameters) of every delivered detail at extended targets and in the TestByTestResult callback; a synthesised exc_info is a (type, instance of it, traceback) triple, also for an unexpected success (with or without details) turned into addFailure on a 2.6-style target; a supplied exc_info arrives as the same exception object; a test reported without details carries nobody else's; details= positionally; word-sized tags; contents that read longer at every call ('grow'). "
        "Directed exhaustive grids: unexpected success with details x paths to a 2.6-style target; the same time() value before and after a new startTestRun x adapters over TestByTestResult; overlapping nested Taggers; wrapped results that disagree x the adapter's verdict; a growing log attached to three tests; positional details x adapter x outcome. "
        "Non-trivial: stack depth >= 2, or "
        "a degrading flavour, or the details->exception/reason fallback taken; distinct = distinct canonical "
        "(stack, history).")
ASSUMPTIONS = [
    "TestResultDecorator / Tagger are only placed over results that speak the extended protocol (they forward details= verbatim)",
    "for addUnexpectedSuccess the TestByTestResult status word is only required to be one of the documented five",
    "below a ThreadsafeForwardingResult the stop time / tags a TestByTestResult sees are those at the outcome "
    "(the forwarder replays the test at that moment)",
    "the verdict of 2.7-style / Twisted-style recorders after addUnexpectedSuccess is theirs; only delivery is asserted",
    "any exception out of startTestRun / stopTestRun / tags / time / an outcome call is a violation: safe because every generated "
    "stack gives each adapter a result it documents support for (see the first assumption)",
    "an adapter may write to the details dict it was handed and may attach details of its own; an extra detail is only a "
    "violation when its bytes repeat a detail the reporter attached (in any call) or another call's exception text",
    "a reason / exc_info given as such to a target that takes it arrives unchanged (the reason equal, the exception the same "
    "object, the triple possibly re-packed); only texts converted *from details* are held to 'contains the detail text' (stripped)",
    "every generated adapter's wasSuccessful() is the conjunction of what it wraps (documented for MultiTestResult; the others delegate)",
    "details may be passed positionally (addSuccess(test, d), addError(test, None, d)): the signatures of TestResult allow it",
    "a synthesised exc_info may be any 3-sequence (a list is not reported)",
    "a new startTestRun puts every TestResult's clock back on the system clock, also after an explicit time(t): "
    "TestResult.startTestRun 'resets the result to a pristine condition ready for use in another test run' (so a "
    "TestByTestResult start/stop time equal to a time() value of an earlier run is reported as stale)",
    "the test object a target / callback receives may be a stand-in for the reporter's (same id()); it must not be the "
    "object of another test of the history",
    "a skip reason given as such reaches the TestByTestResult callback as the bytes of some detail ('reason' by "
    "convention; the key is not asserted)",
    "startTestRun / stopTestRun are counted at extended targets on the strength of 'nothing is dropped or duplicated': "
    "an adapter does not open or close a run on its own",
    "the recorder standing in for a real testtools.TestResult binds outcome arguments by TestResult's own signatures "
    "(details third / second positional argument or by keyword)",
]

FLAVOURS = ["py26", "py27", "ext", "twisted", "real"]


def leafs(extended_only):
    fl = ["ext", "real"] if extended_only else FLAVOURS
    return st.one_of(st.builds(lambda f: {"a": "target", "flavour": f}, st.sampled_from(fl)),
                     st.builds(lambda: {"a": "TBT"}))


def node(depth, extended_only=False):
    if depth == 0:
        return leafs(extended_only)
    anykid = node(depth - 1, False)
    extkid = node(depth - 1, True)
    tagset = st.sets(st.sampled_from(H.TAGS), max_size=2).map(sorted)
    opts = [
        st.builds(lambda c: {"a": "ETOD", "child": c}, anykid),
        st.builds(lambda kids: {"a": "Multi", "children": kids}, st.lists(anykid, min_size=1, max_size=3)),
        st.builds(lambda c: {"a": "TSFR", "child": c}, anykid),
        st.builds(lambda c: {"a": "Decorator", "child": c}, extkid),
        st.builds(lambda c, n, g: {"a": "Tagger", "child": c, "new": n, "gone": [x for x in g if x not in n]}, extkid, tagset, tagset),
    ]
    if extended_only:
        return st.one_of(leafs(True), *opts)
    return st.one_of(*opts)


STACK = st.one_of(node(1), node(2), node(3))
HIST = H.s_history(max_tests=4, with_control=True, test_kinds=("case", "placeholder", "errorholder"), max_ops=26)
# tags are words, not single characters (for a one-character tag set(tag) == {tag} hides any str-for-iterable slip)
TAGMAP = {"t": "t", "u": "slow", "v": "db", "w": "w"}


def long_tags(spec):
    """The same case with the history's and the Taggers' tags renamed through TAGMAP (a new spec; JSON as before)."""
    ren = lambda xs: sorted(TAGMAP.get(x, x) for x in xs)

    def walk(n):
        n = dict(n)
        if n["a"] == "Tagger":
            n["new"], n["gone"] = ren(n["new"]), ren(n["gone"])
        if "child" in n:
            n["child"] = walk(n["child"])
        if "children" in n:
            n["children"] = [walk(k) for k in n["children"]]
        return n
    ops = [dict(o, new=ren(o["new"]), gone=ren(o["gone"])) if o["op"] == "tags" else o for o in spec["history"]["ops"]]
    return dict(spec, stack=walk(spec["stack"]), history=dict(spec["history"], ops=ops))


CASE = st.fixed_dictionaries({"stack": STACK, "history": HIST,
                              # several tests may share an id (id_mod) and may be the very same object reported again (reuse)
                              "id_mod": st.sampled_from([99, 99, 99, 2, 1]), "reuse": st.booleans(),
                              "share_details": st.sampled_from([False, True, "refill", "grow"]),
                              # details= by keyword, or positionally
                              "details_pos": st.sampled_from([False, False, True])}).map(long_tags)


def build(n, path, targets, tbts):
    """-> live result.  path = list of adapter names from the outside in."""
    import testtools
    from testtools.testresult import real
    a = n["a"]
    if a == "target":
        f = n["flavour"]
        if f == "real":
            class Probe(testtools.TestResult):
                def __init__(self):
                    super().__init__()
                    self.events = []
                    self.flavour = "real"

                def startTest(self, test):
                    self.events.append(("startTest", test, {}))
                    super().startTest(test)

                def stopTest(self, test):
                    self.events.append(("stopTest", test, {}))
                    super().stopTest(test)
            for m in OUTCOMES:
                def mk(m):
                    def f_(self, test, *a, **kw):
                        # bind the way TestResult's own signatures do: addSuccess / addUnexpectedSuccess(test,
                        # details=None), the others (test, err-or-reason=None, details=None) - details may arrive
                        # positionally as well as by keyword
                        takes_err = m not in ("addSuccess", "addUnexpectedSuccess")
                        det = kw.get("details")
                        if det is None and len(a) > (1 if takes_err else 0):
                            det = a[1 if takes_err else 0]
                        from vp.results import snap_details
                        ctx = {"details": snap_details(det)} if det is not None else {}
                        if takes_err and a and a[0] is not None:
                            ctx["err" if m != "addSkip" else "reason"] = a[0]
                        if kw.get("err") is not None:
                            ctx["err"] = kw["err"]
                        if kw.get("reason") is not None:
                            ctx["reason"] = kw["reason"]
                        self.events.append((m, test, ctx))
                        return getattr(testtools.TestResult, m)(self, test, *a, **kw)
                    return f_
                setattr(Probe, m, mk(m))
            t = Probe()
        else:
            t = {"py26": Py26, "py27": Py27, "ext": Ext, "twisted": Twisted}[f]()
        targets.append((t, list(path), f))
        return t
    if a == "TBT":
        calls = []
        r = real.TestByTestResult(lambda **kw: calls.append(dict(
            kw,
            _details_snap=None if kw["details"] is None else {k: b"".join(c.iter_bytes()) for k, c in kw["details"].items()},
            _details_ct=None if kw["details"] is None else {k: ct_key(c.content_type) for k, c in kw["details"].items()})))
        tbts.append((r, calls, list(path)))
        return r
    if a == "ETOD":
        return testtools.ExtendedToOriginalDecorator(build(n["child"], path + ["ETOD"], targets, tbts))
    if a == "Multi":
        return testtools.MultiTestResult(*[build(c, path + ["Multi"], targets, tbts) for c in n["children"]])
    if a == "TSFR":
        return testtools.ThreadsafeForwardingResult(build(n["child"], path + ["TSFR"], targets, tbts), threading.Semaphore(1))
    if a == "Decorator":
        return real.TestResultDecorator(build(n["child"], path + ["Decorator"], targets, tbts))
    if a == "Tagger":
        # the tag arguments are any iterables: hand over one-shot iterators
        return real.Tagger(build(n["child"], path + [("Tagger", tuple(n["new"]), tuple(n["gone"]))], targets, tbts),
                           iter(list(n["new"])), iter(list(n["gone"])))
    raise AssertionError(a)


def depth(n):
    kids = n.get("children") or ([n["child"]] if "child" in n else [])
    return 1 + max([depth(k) for k in kids] or [0]) if kids else 0


def degrade(kind, flavour):
    m = H.METHOD[kind]
    if flavour == "py26":
        return {"addSkip": "addSuccess", "addExpectedFailure": "addSuccess", "addUnexpectedSuccess": "addFailure"}.get(m, m)
    return m


def exc_text(err):
    try:
        return str(err[1])
    except Exception as e:
        return "<unprintable %r>" % e


def ct_key(ct):
    """A content type as its public attributes (not its repr, not its identity)."""
    try:
        return (ct.type, ct.subtype, dict(ct.parameters or {}))
    except Exception as e:
        return ("<no content type: %r>" % (e,), None, None)


def growing_details(dspecs, tails):
    """{name: Content} whose contents read as the generated chunks followed by whatever has been appended to the
    content's tail list since (one list per content, collected in ``tails``)."""
    from testtools.content import Content
    from testtools.content_type import ContentType
    out = {}
    for name, d in dspecs.items():
        a, b, params = H.CT_SPECS[d["ct"]]
        tail = []
        tails.append(tail)
        out[name] = Content(ContentType(a, b, dict(params)), lambda chunks=list(d["chunks"]), tail=tail: iter(chunks + list(tail)))
    return out


def frozen(details):
    """Contents that will always read as they read now (what the oracle compares against)."""
    from testtools.content import Content
    out = {}
    for name, c in details.items():
        data = b"".join(c.iter_bytes())
        out[name] = Content(c.content_type, lambda data=data: [data])
    return out


class PosDetails:
    """The reporter hands ``details`` over positionally (``addSuccess(test, d)``, ``addError(test, None, d)``)."""

    def __init__(self, result):
        self._result = result

    def __getattr__(self, name):
        m = getattr(self._result, name)
        if name not in OUTCOMES:
            return m

        def call(test, *a, **kw):
            if not a and set(kw) == {"details"}:
                if name in ("addSuccess", "addUnexpectedSuccess"):
                    return m(test, kw["details"])
                return m(test, None, kw["details"])
            return m(test, *a, **kw)
        return call


def exc_info_shaped(err):
    """(type, value, traceback) with value an exception instance of that type; a list is as good as a tuple."""
    try:
        a, b, _ = err
    except Exception:
        return False
    return isinstance(a, type) and isinstance(b, BaseException) and isinstance(b, a)


def shape_of(err):
    try:
        return "%s(%s)" % (type(err).__name__, ", ".join(type(x).__name__ for x in err))
    except Exception:
        return type(err).__name__


def same_exc_info(got, sent):
    """The exc_info the reporter supplied: the identical triple, or a rebuilt one around the same exception object
    (the statement does not forbid an adapter trimming the traceback or re-packing the triple)."""
    if got is sent:
        return True
    try:
        return len(got) == 3 and got[1] is sent[1]
    except Exception:
        return False


def run_case(spec):
    vs = []
    targets, tbts = [], []
    r = build(spec["stack"], [], targets, tbts)
    tags = H.TagModel()
    now = None
    cur = None
    reported = []      # per test: dict(test, kind, info, tags_at_outcome, tags_at_stop, start, out_time, stop)
    fallback = False
    tbt_models = [H.TagModel() for _ in tbts]      # the reporter's tags plus what Taggers on the path add per test
    tbt_seen = [[] for _ in tbts]                  # per test: (tags at outcome, tags at stopTest)

    made = {}
    started = []       # every test object handed to startTest
    shared_details = {} if spec.get("share_details") else None     # one dict object per distinct set of attachments
    if spec.get("share_details") == "refill":
        shared_details = {"<refill>": {}}                          # ... or one dict for the whole history, refilled
    # "grow": the same dict of the same Content objects goes to every outcome that carries details, and each content
    # reads longer every time (a log that is still being written); the oracle's copy is frozen at the call
    grow = {"dict": None, "tails": []} if spec.get("share_details") == "grow" else None
    caller = PosDetails(r) if spec.get("details_pos") else r
    all_times = {H.ts(o["t"]) for o in spec["history"]["ops"] if o["op"] == "time" and o["t"] is not None}

    def each_model(fn):
        for m in tbt_models:
            fn(m)
    for n, op in enumerate(spec["history"]["ops"]):
        k = op["op"]
        try:
            if k == "startTestRun":
                r.startTestRun()
                tags.start_run()
                each_model(lambda m: m.start_run())
                now = None
            elif k == "stopTestRun":
                r.stopTestRun()
            elif k == "tags":
                r.tags(set(op["new"]), set(op["gone"]))
                tags.change(op["new"], op["gone"])
                each_model(lambda m: m.change(op["new"], op["gone"]))
            elif k == "time":
                now = H.ts(op["t"])
                r.time(now)
            elif k == "startTest":
                key = (op["i"] % spec.get("id_mod", 99), op["tk"])
                if spec.get("reuse") and key in made:
                    cur = made[key]
                else:
                    cur = made[key] = H.make_test(key[0], op["tk"])
                r.startTest(cur)
                tags.start_test()
                for (r_, calls_, path_), m in zip(tbts, tbt_models):
                    m.start_test()
                    for step in reversed(path_):       # the innermost Tagger tags first
                        if isinstance(step, tuple):
                            m.change(step[1], step[2])
                reported.append({"test": cur, "start": now})
                started.append(cur)
            elif k == "outcome":
                e = reported[-1]
                e["kind"] = op["kind"]
                e["marker"] = "MARK-%d-" % op["marker"]
                e["tags_at_outcome"] = frozenset(tags.current)
                e["out_time"] = now
                e["payload"] = op["payload"]
                e["tbt_out"] = [frozenset(m.current) for m in tbt_models]
                if grow is not None and op["payload"].get("form") in ("details", "details+reasondetail"):
                    if grow["dict"] is None and op["payload"]["details"]:
                        grow["dict"] = growing_details(op["payload"]["details"], grow["tails"])
                        grow["names"] = set(grow["dict"])
                    elif grow["dict"] is not None:
                        for tail in grow["tails"]:
                            tail.append(b"+more%d" % n)
                    if grow["dict"] is not None:
                        shared_details[repr(sorted(op["payload"]["details"].items()))] = grow["dict"]
                # the names this reporter itself attaches (a shared dict may come back with more, if an adapter wrote to it)
                e["made_names"] = (set(grow["names"]) if grow is not None and grow["dict"] is not None else set(op["payload"].get("details") or ())) | (
                    {"reason"} if op["payload"].get("form") == "details+reasondetail" else set())
                e["info"] = H.outcome_call(caller, cur, op, shared=shared_details)
                if e["info"]["details"] is not None:
                    e["info"]["details"] = frozen(e["info"]["details"])
                # (whether an adapter may touch the caller's dict is not part of the statement: what the dict held when
                # it was handed over is what must arrive, and that is what the private copy records)
            elif k == "stopTest":
                reported[-1]["tags_at_stop"] = frozenset(tags.current)
                reported[-1]["stop"] = now
                reported[-1]["tbt_stop"] = [frozenset(m.current) for m in tbt_models]
                r.stopTest(cur)
                tags.stop_test()
                each_model(lambda m: m.stop_test())
            elif k in ("stop", "done", "progress"):
                # control calls are part of the histories (they must not disturb delivery) but the
                # statement does not promise that every adapter implements them
                try:
                    if k == "progress":
                        r.progress(op["offset"], op["whence"])
                    else:
                        getattr(r, k)()
                except AttributeError:
                    pass
        except Exception as e:
            if type(e).__module__.startswith("vp."):
                raise
            kind = reported[-1].get("kind") if reported and k == "outcome" else ""
            tk = type(cur).__name__ if cur is not None else ""
            vs.append(V("call-raises", "%s-%s-%s-%s" % (k, kind, type(e).__name__, tk if k == "outcome" else ""),
                        "%s raised %r through stack %r" % (k, e, spec["stack"])))
            return Case(vs, True, ["raised"])
    reported = [e for e in reported if "kind" in e and "stop" in e]

    def somebody_elses(obj, e_):
        """Is ``obj`` (received where e_'s test was reported) the object of *another* reported test?  The statement
        speaks of calls, not of object identity: an adapter may hand on a stand-in (a proxy, a copy) with the same id();
        what it may not do is hand on a different test of this history."""
        return obj is not e_["test"] and any(obj is x for x in started)

    def foreign(data, here):
        """Do these bytes repeat something the reporter supplied (a detail of any call, the exception text of another
        call)?  Empty contents are nobody's."""
        if not isinstance(data, bytes) or not data.strip():
            return False
        for e_ in reported:
            inf = e_.get("info") or {}
            for name_, c_ in (inf.get("details") or {}).items():
                if name_ in e_["made_names"] and b"".join(c_.iter_bytes()) == data:
                    return True
            if e_ is not here and inf.get("err") is not None and e_["marker"].encode() in data:
                return True
        return False

    for t, path, flavour in targets:
        evs = [e for e in t.events if e[0] in ("startTest", "stopTest") or e[0] in OUTCOMES]
        want = []
        for e in reported:
            want += [("startTest", e), (degrade(e["kind"], flavour), e), ("stopTest", e)]
        got_names = [(e[0], e[1].id()) for e in evs]
        want_names = [(w[0], w[1]["test"].id()) for w in want]
        if got_names != want_names:
            # classify
            if len(got_names) < len(want_names):
                b = "dropped"
            elif len(got_names) > len(want_names):
                b = "duplicated"
            elif sorted(got_names) == sorted(want_names):
                b = "reordered"
            else:
                b = "wrong-outcome"
            vs.append(V("delivery", "%s-%s" % (b, flavour), "target %s behind %r received %r, expected %r" % (flavour, path, got_names, want_names)))
            continue
        for ev, (wname, e) in zip(evs, want):
            if somebody_elses(ev[1], e):
                vs.append(V("delivery", "test-identity", "target received another test's object"))
            if ev[0] not in OUTCOMES:
                continue
            ctx = ev[2]
            info = e["info"]
            sent_details = info["details"]
            if flavour in ("ext", "real"):
                if sent_details is not None:
                    det = ctx.get("details")
                    if det is None:
                        vs.append(V("richest-protocol", "details-not-passed-" + flavour, "%s: details were degraded for a target with the details protocol" % wname))
                    else:
                        for name, c in sent_details.items():
                            data = b"".join(c.iter_bytes())
                            if name not in det or det[name][2] != data:
                                vs.append(V("richest-protocol", "detail-changed", "detail %r arrived as %r" % (name, det.get(name))))
                            elif ct_key(det[name][1]) != ct_key(c.content_type):
                                vs.append(V("richest-protocol", "detail-content-type", "detail %r was sent as %r, arrived as %r" % (
                                    name, ct_key(c.content_type), ct_key(det[name][1]))))
                        if set(sent_details) - set(det):
                            vs.append(V("richest-protocol", "detail-names", "%s: details %r were sent, %r arrived" % (wname, sorted(sent_details), sorted(det))))
                        for name in sorted(set(det) - set(sent_details)):
                            # a detail of its own that an adapter attaches is not excluded by the statement; one that
                            # carries what the reporter attached elsewhere (another call, another name) is a duplicate
                            if foreign(det[name][2], e):
                                vs.append(V("richest-protocol", "detail-names", "%s: details %r were sent, %r arrived; %r repeats content sent elsewhere" % (
                                    wname, sorted(sent_details), sorted(det), name)))
                elif info["err"] is not None:
                    if not same_exc_info(ctx.get("err"), info["err"]) and not (ctx.get("details") and "traceback" in ctx["details"]):
                        vs.append(V("richest-protocol", "err-lost", "%s: exc_info not delivered" % wname))
                elif info["reason"] is not None and wname == "addSkip":
                    got_reason = ctx.get("reason")
                    if got_reason is None and ctx.get("details") and "reason" in ctx["details"]:
                        got_reason = ctx["details"]["reason"][2].decode("utf8")
                    if got_reason != info["reason"]:
                        vs.append(V("richest-protocol", "reason", "skip reason %r arrived as %r" % (info["reason"], got_reason)))
                if sent_details is None and ctx.get("details"):
                    # nothing of another call rides along: no foreign detail, and the traceback (if the exc_info was
                    # turned into one) is this call's
                    for name in sorted(set(ctx["details"]) - {"traceback", "reason"}):
                        if foreign(ctx["details"][name][2], e):
                            vs.append(V("richest-protocol", "detail-names", "%s: no details were sent, %r arrived and %r repeats content sent elsewhere" % (
                                wname, sorted(ctx["details"]), name)))
                    tb = ctx["details"].get("traceback")
                    if tb is not None and info["err"] is not None and ctx.get("err") is None and isinstance(tb[2], bytes) and e["marker"].encode() not in tb[2]:
                        vs.append(V("richest-protocol", "err-lost", "%s: the traceback detail does not mention this call's exception (%s)" % (wname, e["marker"])))
            else:
                # degraded targets: details become a synthetic exception or a reason containing the text
                if wname in ("addError", "addFailure", "addExpectedFailure"):
                    # (an unexpected success that became addFailure on a 2.6-style target is held to the same clauses)
                    err = ctx.get("err")
                    if err is None:
                        vs.append(V("degrade", "no-err-" + flavour, "%s delivered without exc_info" % wname))
                    elif not exc_info_shaped(err):
                        vs.append(V("degrade", "exc-info-shape-" + flavour, "%s received %s, not a (type, instance of it, traceback) triple" % (wname, shape_of(err))))
                    elif sent_details is not None:
                        fallback = True
                        text = exc_text(err)
                        for name, c in sent_details.items():
                            if c.content_type.type == "text":
                                want_text = c.as_text().strip()
                                if want_text and want_text not in text:
                                    vs.append(V("degrade", "detail-text-missing-" + flavour, "text of detail %r (%r) not in the synthetic exception %r" % (name, want_text, text)))
                    elif info["err"] is not None and not same_exc_info(err, info["err"]):
                        vs.append(V("degrade", "err-replaced-" + flavour, "%s: exc_info replaced" % wname))
                if wname == "addSkip":
                    reason = ctx.get("reason")
                    if info["reason"] is not None:
                        if sent_details is not None:
                            # the reason was one of the details: "a reason whose text contains the detail text"
                            fallback = True
                            if not isinstance(reason, str) or info["reason"].strip() not in reason:
                                vs.append(V("degrade", "skip-reason-" + flavour, "skip reason %r arrived as %r" % (info["reason"], reason)))
                        elif reason != info["reason"]:
                            # handed over as a reason to a target that takes reasons: nothing to degrade
                            vs.append(V("degrade", "skip-reason-" + flavour, "skip reason %r arrived as %r" % (info["reason"], reason)))
                    elif sent_details is not None:
                        fallback = True
                        if not isinstance(reason, str):
                            vs.append(V("degrade", "skip-reason-type-" + flavour, "reason is %r" % (reason,)))
                        else:
                            for name, c in sent_details.items():
                                if c.content_type.type == "text":
                                    wt = c.as_text().strip()
                                    if wt and wt not in reason:
                                        vs.append(V("degrade", "skip-detail-text-missing-" + flavour, "text of detail %r not in reason %r" % (name, reason)))
        if flavour == "ext":
            # run-level calls reach the target once each
            for name in ("startTestRun", "stopTestRun"):
                sent = sum(1 for o in spec["history"]["ops"] if o["op"] == name)
                got = sum(1 for e in t.events if e[0] == name)
                if got != sent:
                    vs.append(V("delivery", "%s-count" % name, "%d %s calls were made, target behind %r received %d" % (sent, name, path, got)))
        bad = any(e["kind"] in ("error", "failure") or (e["kind"] == "uxsuccess" and flavour in ("py26", "ext", "real", "py27")) for e in reported)
        # the run may have been restarted: only assert when the last startTestRun precedes every bad outcome
        ops = spec["history"]["ops"]
        last_start = max([i for i, o in enumerate(ops) if o["op"] == "startTestRun"] or [-1])
        bad_after = any(o["op"] == "outcome" and (o["kind"] in ("error", "failure") or (o["kind"] == "uxsuccess" and flavour in ("py26", "ext", "real", "py27")))
                        for o in ops[last_start + 1:])
        resets = flavour in ("ext", "real")
        if (bad_after or (bad and not resets)) and t.wasSuccessful():
            vs.append(V("verdict", "failing-became-passing-" + flavour, "history has a failing outcome but target %s behind %r says wasSuccessful()" % (flavour, path)))

    # the verdict asked of the outermost adapter itself: every generated adapter is a conjunction of what it wraps
    # (MultiTestResult documents "only True if every constituent result was successful", the others delegate), so once a
    # failing outcome of the current run has reached a wrapped result that has to count it, the adapter must not say True
    if targets and not vs:
        ops_ = spec["history"]["ops"]
        last_start_ = max([i for i, o in enumerate(ops_) if o["op"] == "startTestRun"] or [-1])
        kinds_since = {o["kind"] for o in ops_[last_start_ + 1:] if o["op"] == "outcome"}
        obliged = [(t, f) for t, _, f in targets
                   if kinds_since & {"error", "failure"} or ("uxsuccess" in kinds_since and f in ("py26", "ext", "real", "py27"))]
        if obliged and all(t.wasSuccessful() is False for t, _ in obliged):
            try:
                verdict = r.wasSuccessful()
            except AttributeError:
                verdict = None
            if verdict is True:
                vs.append(V("verdict", "adapter-says-successful", "wrapped result(s) %r say wasSuccessful() False after a failing outcome, the outermost adapter of %r says True" % (
                    sorted({f for _, f in obliged}), spec["stack"])))

    for r_, calls, path in tbts:
        under_tsfr = "TSFR" in path
        if len(calls) != len(reported):
            vs.append(V("test-by-test", "callback-count", "%d callbacks for %d tests (path %r)" % (len(calls), len(reported), path)))
            continue
        for c, e in zip(calls, reported):
            try:
                same_id = c["test"] is e["test"] or c["test"].id() == e["test"].id()
            except Exception:
                same_id = False
            if not same_id or somebody_elses(c["test"], e):
                vs.append(V("test-by-test", "test", "callback for the wrong test"))
            want_status = {"success": "success", "error": "error", "failure": "failure", "skip": "skip", "xfail": "xfail"}.get(e["kind"])
            if want_status is None:
                if c["status"] not in ("success", "failure", "error", "skip", "xfail"):
                    vs.append(V("test-by-test", "status-word", "status %r for an unexpected success" % (c["status"],)))
            elif c["status"] != want_status:
                vs.append(V("test-by-test", "status-" + e["kind"], "status %r for %s" % (c["status"], e["kind"])))
            if e["start"] is not None and c["start_time"] != e["start"]:
                vs.append(V("test-by-test", "start-time", "start_time %r, time() at startTest was %r" % (c["start_time"], e["start"])))
            stops = {e["stop"]} | ({e["out_time"]} if under_tsfr else set())
            if None not in stops and c["stop_time"] not in stops:
                vs.append(V("test-by-test", "stop-time", "stop_time %r, time() at stopTest was %r" % (c["stop_time"], e["stop"])))
            if c["start_time"] is None or c["stop_time"] is None:
                vs.append(V("test-by-test", "time-none", "start/stop time missing"))
            else:
                # without an explicit time() in force the clock is the wall clock, not some earlier run's value
                for which, supplied, got in (("start", e["start"], c["start_time"]), ("stop", e["stop"], c["stop_time"])):
                    if supplied is None and not under_tsfr and got in all_times:
                        vs.append(V("test-by-test", "stale-%s-time" % which, "%s_time is %r although no time() value was in force (a new run started since the last one)" % (which, got)))
            # tags: the reporter's tags at stopTest after the per-test changes of the Taggers on the path
            idx = [x[0] for x in tbts].index(r_)
            want_tags = set(e["tbt_out"][idx] if under_tsfr else e["tbt_stop"][idx])
            tagger_below_tsfr = under_tsfr and any(isinstance(s_, tuple) for s_ in path[path.index("TSFR"):])
            if not tagger_below_tsfr and set(c["tags"]) != want_tags:
                vs.append(V("test-by-test", "tags", "tags %r, expected %r (path %r)" % (sorted(c["tags"]), sorted(want_tags), path)))
            info = e["info"]
            det = c["_details_snap"]
            expected_names = set(info["details"] or ()) | ({"traceback"} if info["err"] is not None else set()) | (
                {"reason"} if e["kind"] == "skip" else set())
            reason_bytes = info["reason"].encode("utf8") if e["kind"] == "skip" and info["reason"] else None
            for name in sorted(set(det or ()) - expected_names):
                if reason_bytes is not None and "reason" not in e["made_names"] and det[name] == reason_bytes:
                    continue    # this call's own reason under a name of the adapter's choosing (see below)
                # (as at the extended targets: an adapter's own note is tolerated, content of another call is not; a
                # test reported without details or exc_info must not carry the previous test's)
                if foreign(det[name], e):
                    vs.append(V("test-by-test", "details-extra", "details %r were sent, the callback got %r; %r repeats content sent elsewhere" % (
                        sorted(info["details"] or ()), sorted(det), name)))
            if info["details"] is not None:
                for name, cont in info["details"].items():
                    data = b"".join(cont.iter_bytes())
                    if det is None or det.get(name) != data:
                        vs.append(V("test-by-test", "details", "detail %r arrived as %r" % (name, None if det is None else det.get(name))))
                    elif c["_details_ct"][name] != ct_key(cont.content_type):
                        vs.append(V("test-by-test", "details-content-type", "detail %r was sent as %r, the callback got %r" % (
                            name, ct_key(cont.content_type), c["_details_ct"][name])))
            if info["err"] is not None:
                if det is None or not any(e["marker"].encode() in v for v in det.values()):
                    vs.append(V("test-by-test", "traceback", "no traceback detail with marker %s: %r" % (e["marker"], det and sorted(det))))
            if e["kind"] == "skip" and info["reason"]:
                # a reason given as such becomes a detail; the statement does not name its key ('reason' by convention)
                if det is None or reason_bytes not in det.values():
                    vs.append(V("test-by-test", "reason", "skip reason %r arrived as %r" % (info["reason"], det and det.get("reason"))))
    d = depth(spec["stack"])
    degr = any(f in ("py26", "py27", "twisted") for _, _, f in targets)
    nt = d >= 2 or degr or fallback
    return Case(vs, nt, ["depth=%d" % d, "degrading" if degr else "", "fallback" if fallback else "", "tbt" if tbts else "",
                         "targets=%d" % len(targets)] + sorted({"flavour=" + f for _, _, f in targets}),
                {"tests": len(reported)})


# ------------------------------------------------------------------ directed grids (corners the random histories reach too rarely)
def _t(flavour):
    return {"a": "target", "flavour": flavour}


_TBT = {"a": "TBT"}


def _over(adapter, child, new=(), gone=()):
    if adapter == "Multi":
        return {"a": "Multi", "children": [child]}
    if adapter == "Tagger":
        return {"a": "Tagger", "child": child, "new": sorted(new), "gone": sorted(gone)}
    return {"a": adapter, "child": child}


def _case(stack, ops, **kw):
    return dict({"stack": stack, "history": {"ops": ops}, "id_mod": 99, "reuse": False, "share_details": False, "details_pos": False}, **kw)


def _test(i, kind="success", payload=None, tk="case", before_stop=()):
    return [{"op": "startTest", "i": i, "tk": tk},
            {"op": "outcome", "kind": kind, "marker": i + 1, "payload": payload or {"form": "none", "details": {}}}] + list(before_stop) + [{"op": "stopTest"}]


def _enum_uxsuccess_details():
    """An unexpected success carrying details, over every way of reaching a 2.6-style target (it becomes addFailure:
    the text of the details has to be in the synthetic exception)."""
    stacks = [_over("ETOD", _t("py26")), _over("Multi", _t("py26")), _over("TSFR", _t("py26")),
              {"a": "Multi", "children": [_t("py26"), _t("ext")]}, {"a": "Multi", "children": [_TBT, _t("py26")]},
              _over("ETOD", _over("ETOD", _t("py26"))), _over("Decorator", {"a": "Multi", "children": [_t("py26")]})]
    dets = [{"log": {"ct": 0, "chunks": [b"IMPORTANT-LOG-TEXT"]}},
            {"traceback": {"ct": 2, "chunks": [b"Traceback (most recent call last):\n", b"  boom\n"]}, "x": {"ct": 3, "chunks": [b"\xff\x00"]}}]
    for stack in stacks:
        for d in dets:
            for tk in ("case", "placeholder"):
                for pos in (False, True):
                    yield _case(stack, _test(0, "uxsuccess", {"form": "details", "details": d}, tk=tk), details_pos=pos)


def _enum_time_after_restart():
    """time(t) ... startTestRun ... time(t): the second call carries a value the adapter has already seen, and the
    target's clock was reset in between, so it has to be forwarded again."""
    adapters = ["ETOD", "Multi", "TSFR", "Decorator", "Tagger"]
    stacks = [_over(a, _TBT) for a in adapters] + [_over("TSFR", _over("ETOD", _TBT)), _over("Decorator", _over("Decorator", _TBT)),
                                                  {"a": "Multi", "children": [_t("ext"), _TBT]}]
    for stack in stacks:
        for t in (5, 1004):
            for first_run in (True, False):
                ops = ([{"op": "startTestRun"}] if first_run else []) + [{"op": "time", "t": t}] + _test(0)
                ops += ([{"op": "stopTestRun"}] if first_run else []) + [{"op": "startTestRun"}, {"op": "time", "t": t}]
                ops += _test(1, before_stop=[{"op": "time", "t": t}]) + [{"op": "stopTestRun"}]
                yield _case(stack, ops)


def _enum_nested_taggers():
    """Two Taggers whose tag sets overlap (the outer one has the last word), with and without the tag being current
    in the run, one and two tests; multi-character tags."""
    for outer, inner in ((("slow",), ()), ((), ("slow",))):
        o_new, o_gone = outer, inner            # outer adds what the inner removes, or the other way round
        for leaf in (_TBT, {"a": "Multi", "children": [_TBT, _t("ext")]}):
            stack = _over("Tagger", _over("Tagger", leaf, new=o_gone, gone=o_new), new=o_new, gone=o_gone)
            for run_tag in ((), ("slow",), ("db",)):
                for ntests in (1, 2):
                    ops = [{"op": "startTestRun"}] + ([{"op": "tags", "new": list(run_tag), "gone": []}] if run_tag else [])
                    for i in range(ntests):
                        ops += _test(i, before_stop=[{"op": "tags", "new": ["db"], "gone": []}] if i == 0 else [])
                    yield _case(stack, ops)
    # a single Tagger with a word for a tag, over every leaf kind that keeps tags
    for leaf in (_TBT, _over("Decorator", _TBT)):
        yield _case(_over("Tagger", leaf, new=("slow", "db"), gone=("w",)), [{"op": "tags", "new": ["w"], "gone": []}] + _test(0) + _test(1))


def _enum_verdicts():
    """Wrapped results that disagree about the run (an unexpected success over an extended and a Twisted-style
    result; an error over anything): the adapter's own verdict is the conjunction."""
    pairs = [("ext", "twisted"), ("twisted", "ext"), ("real", "twisted"), ("py26", "twisted"), ("py27", "ext"), ("ext", "real")]
    for a, b in pairs:
        multi = {"a": "Multi", "children": [_t(a), _t(b)]}
        for stack in (multi, _over("ETOD", multi), _over("TSFR", multi), {"a": "Multi", "children": [_t(a), _TBT, _t(b)]}):
            for kind in ("uxsuccess", "error", "failure"):
                payload = {"form": "none", "details": {}} if kind == "uxsuccess" else {"form": "err", "details": {}, "exc": "ValueError", "call": "pos"}
                for run in (False, True):
                    ops = ([{"op": "startTestRun"}] if run else []) + _test(0, kind, payload) + _test(1)
                    yield _case(stack, ops)


def _enum_growing_log():
    """The same Content objects attached to three tests in a row, reading longer each time (a log file still being
    written): each conversion to an exception / a reason has to read them again."""
    stacks = [_over("ETOD", _t(f)) for f in ("py26", "py27", "twisted")] + [
        {"a": "Multi", "children": [_t("py27"), _t("ext")]}, _over("TSFR", _t("twisted")), {"a": "Multi", "children": [_TBT, _t("py26")]},
        _over("ETOD", _over("ETOD", _t("py27")))]
    d = {"log": {"ct": 0, "chunks": [b"first line\n"]}, "traceback": {"ct": 2, "chunks": [b"Traceback: boom"]}}
    for stack in stacks:
        for kind in ("error", "failure", "xfail", "skip", "uxsuccess", "success"):
            ops = []
            for i in range(3):
                ops += _test(i, kind, {"form": "details", "details": d, "reason": "", "call": "pos", "exc": "ValueError"})
            yield _case(stack, ops, share_details="grow")


def _enum_positional_details():
    """details handed over positionally, one call per outcome kind, through each adapter."""
    stacks = [_over("ETOD", _t("ext")), _over("ETOD", _t("py27")), _over("Multi", _t("ext")), _over("TSFR", _t("real")),
              _over("Decorator", _t("ext")), _over("Tagger", _t("ext"), new=("slow",)), _over("Decorator", _TBT)]
    d = {"log": {"ct": 0, "chunks": [b"positional"]}}
    for stack in stacks:
        for kind in H.KINDS:
            yield _case(stack, _test(0, kind, {"form": "details", "details": d, "reason": "", "call": "pos", "exc": "ValueError"}), details_pos=True)


def subchecks(tier):
    q = tier == "quick"
    return [Sub("adapter_stacks", run_case, CASE, 2500 if q else 160000),
            Sub("uxsuccess_details_to_26_grid", run_case, enum=_enum_uxsuccess_details, enum_complete=True,
                note="unexpected success with details x every path to a 2.6-style target"),
            Sub("time_after_restart_grid", run_case, enum=_enum_time_after_restart, enum_complete=True,
                note="the same time() value before and after a new startTestRun x every adapter over TestByTestResult"),
            Sub("nested_taggers_grid", run_case, enum=_enum_nested_taggers, enum_complete=True,
                note="overlapping Taggers, word-sized tags"),
            Sub("verdict_grid", run_case, enum=_enum_verdicts, enum_complete=True,
                note="wrapped results that disagree about the run"),
            Sub("growing_log_grid", run_case, enum=_enum_growing_log, enum_complete=True,
                note="one set of Content objects, longer at every read, attached to three tests"),
            Sub("positional_details_grid", run_case, enum=_enum_positional_details, enum_complete=True,
                note="details as a positional argument x adapter x outcome kind")]
