"""C15 - Spinner returns the function's own result within the timeout, restores the process."""
import signal

from hypothesis import strategies as st

from vp.core import Case, Sub, V
from vp.vreactor import VReactor, SignalSandbox, Hang

PROPERTY = "C15"
RULE = ("Model-based histories on ONE Spinner over a deterministic virtual-time reactor: each step is run(timeout, f) "
        "with f returning / raising synchronously or returning a Deferred that fires / fails at a generated time "
        "(before, equal to, after the timeout, or never), scheduling 0..3 further delayed calls and registering 0..2 "
        "selectables, optionally re-entering spinner.run (once or twice), with an optional interrupt (SIGINT "
        "delivered at a generated virtual instant), generated tie-breaking between calls due at the same instant and "
        "generated pre-installed SIGINT/SIGTERM/SIGCHLD handlers; or clear_junk(). Oracle from the statement: "
        "result / exception / TimeoutError / NoResultError / ReentryError / StaleJunkError by a timeline model "
        "(ties admit either outcome, except that a timeout/result tie is decided by the order the reactor used, see ASSUMPTIONS; the spinner's own "
        "error classes are recognised by isinstance, not by name), reactor not running, no delayed calls or selectables left, leftovers reported "
        "as junk, reactor.stop and the three signal handlers restored. A small real-reactor tier (thorough) runs the "
        "timing-insensitive subset on the global reactor. Also: f firing (callback or errback) the Deferred an earlier unfinished run waited on, delayed calls that exist before run(), positional and keyword arguments of run(), fractional timeouts, reactor.stop and pending calls after a refused run. "
        "Also (third audit): selectables that exist before run(); one or two stop requests per run (SIGINT, SIGTERM or a bare reactor.stop(), the second in the "
        "same reactor pass or later) over a reactor that, like the real ones, cannot run again once its real stop() was called; f raising / its Deferred failing "
        "with KeyboardInterrupt or SystemExit, and the exception that leaves run() must have the class and arguments of the one f produced; a value equal to "
        "everything; timeout 0; spinner.run() attempted from a delayed call due at the instant the run ends; every definite leftover must itself be in the junk "
        "list; a run that would never end is a violation. At a timeout/result tie the spinner's timeout call is recognised structurally (the delayed call the code "
        "under test scheduled in this run() before calling f, due 'timeout' after the start; no private names) and the result call is the harness's own. "
        "A small exhaustive corner grid repeats these dimensions at every seed. "
        "Non-trivial: second or later run on the same spinner, or "
        "an interrupt, or leftovers; distinct = distinct canonical history.")
ASSUMPTIONS = [
    "the virtual reactor (task.Clock + ~120 lines) is faithful for what Spinner touches; ties at one virtual instant admit either order",
    "the spinner's own timeout call, still pending when the reactor is interrupted, counts as a leftover (it is cancelled and reported as junk)",
    "... but that is a tolerance, not a demand: a spinner that cancels its own timeout call itself and does not report it is admitted "
    "(the junk count has a lower and an upper bound; third audit C2)",
    "when the timeout and the Deferred are due in the same reactor pass, the order the reactor actually used decides (the statement's 'equal' is read "
    "through it, not as 'either'): the timeout call having run while the Deferred had not fired is 'the Deferred has not fired when timeout elapses', so "
    "once the timeout call has run the run has timed out and run() must raise TimeoutError - a value OR a failure that reaches the Deferred later in "
    "that same pass must not replace it (a spinner whose Deferred failure overrides a timeout that already ran, e.g. through an '.active()' guard "
    "around the cancellation of the timeout call, is reported; fourth audit 1, kept deliberately); the result call having run first gives the result; "
    "if the spinner scheduled no delayed call due at start + timeout (it keeps time differently) both outcomes are admitted",
    "'raises TimeoutError / NoResultError / StaleJunkError / ReentryError' is judged by isinstance against the classes "
    "testtools.twistedsupport._spinner exports under these names (a renamed class behind the alias or a subclass is admitted; the builtin "
    "TimeoutError is not the spinner's TimeoutError)",
    "a bare reactor.stop() called while run() is in progress is a stop request like SIGINT / SIGTERM and must leave the reactor usable for the next "
    "run: the statement's 'reactor.stop ... what it was before the call' is read as making the stop->crash substitution part of the contract; a spinner "
    "that handles the signals itself and leaves reactor.stop alone would be reported on such histories (fourth audit 3)",
    "a function that completes synchronously decides the run before any timed event or stop request at virtual instant 0 (the spinner starts f as soon "
    "as the reactor runs); a spinner that started f through a 0-delay call would be judged against this model (third audit C3)",
    "'reported as junk' is read as: the leftover delayed call / selectable object itself is in the list get_junk() / clear_junk() return",
    "'raises the exception f raised / its Deferred failed with' is checked as: same class and same args (not object identity)",
    "f does not cancel delayed calls it did not schedule (cancelling the spinner's own timeout call loses the result: third audit B1, a live behaviour "
    "reported separately, not generated)",
]

TIMES = [0, 1, 2, 3, 5]
HANDLERS = ["SIG_DFL", "SIG_IGN", "default_int_handler", "pyfunc"]
EXC_NAMES = ["UserError", "UserError", "KeyboardInterrupt", "SystemExit"]
SIGS = ["SIGINT", "SIGINT", "SIGTERM", "stop"]


@st.composite
def s_run(draw):
    kind = draw(st.sampled_from(["return", "raise", "fire", "fail", "never", "fire", "fail"]))
    step = {"op": "run", "kind": kind, "timeout": draw(st.sampled_from([1, 2, 3, 5, 0.5, 2.5, 0])),
            # f fires the Deferred an earlier, unfinished run of this spinner was waiting for (if there is one)
            "fire_old": draw(st.sampled_from([False, False, False, "callback", "errback"])),
            "extra_before": draw(st.booleans()),       # the extra delayed calls exist before run() is called, not made by f
            "t": draw(st.sampled_from(TIMES)) if kind in ("fire", "fail") else None,
            "value": draw(st.sampled_from([None, 0, "v", (1, 2), "HOSTILE"])),      # HOSTILE: an object equal to everything
            "extra": draw(st.lists(st.sampled_from(TIMES + [7]), max_size=3)),
            "selectables": draw(st.integers(0, 2)) if draw(st.integers(0, 3)) == 0 else 0,
            "interrupt": draw(st.one_of(st.none(), st.none(), st.sampled_from(TIMES))),
            "reenter": draw(st.sampled_from([0, 0, 0, 1, 2])),
            "ties": draw(st.lists(st.integers(0, 3), max_size=4)),
            "handlers": [draw(st.sampled_from(HANDLERS)) for _ in range(3)],
            "own_stop": draw(st.sampled_from([False, False, True]))}      # the application had wrapped reactor.stop on the instance
    # what f raises / its Deferred fails with: an Exception, or a BaseException that is not one
    step["exc"] = draw(st.sampled_from(EXC_NAMES)) if kind in ("raise", "fail") else "UserError"
    # a second stop request in the same run (an impatient second Ctrl-C), possibly in the same reactor pass
    step["interrupt2"] = None
    if step["interrupt"] is not None:
        second = draw(st.sampled_from([None, None, "same", "same"] + TIMES))
        step["interrupt2"] = step["interrupt"] if second == "same" else second
    # how each of the two stop requests arrives: a signal, or reactor.stop() called from outside any delayed call
    step["sigs"] = [draw(st.sampled_from(SIGS)), draw(st.sampled_from(SIGS))]
    step["late_reenter"] = draw(st.sampled_from([False, False, False, False, True])) if kind in ("fire", "fail", "never") else False
    return step


HISTORY = st.lists(st.one_of(s_run(), s_run(), st.just({"op": "clear_junk"})), min_size=1, max_size=5)


def py_handler(*a):
    pass


def resolve_handler(name):
    return {"SIG_DFL": signal.SIG_DFL, "SIG_IGN": signal.SIG_IGN, "default_int_handler": signal.default_int_handler,
            "pyfunc": py_handler}[name]


def model_run(step):
    """-> (set of admissible results, end times admissible, info)  results: ('value', v) / ('raise', name)."""
    T = step["timeout"]
    k = step["kind"]
    ti = step["interrupt"]
    # candidate terminating events: (time, label)
    events = []
    exc = step.get("exc") or "UserError"
    if k in ("return", "raise"):
        # completes synchronously at time 0 inside callWhenRunning, before any timed event
        res = ("value", step["value"]) if k == "return" else ("raise", exc)
        return {res}, {0}, {"sync": True}
    events.append((T, "timeout"))
    if k in ("fire", "fail"):
        events.append((step["t"], "result"))
    if ti is not None:
        events.append((ti, "interrupt"))
        if step.get("interrupt2") is not None:
            events.append((step["interrupt2"], "interrupt"))      # the earliest stop request decides
    first = min(t for t, _ in events)
    winners = [lab for t, lab in events if t == first]
    out = set()
    for w in winners:
        if w == "timeout":
            out.add(("raise", "TimeoutError"))
        elif w == "interrupt":
            out.add(("raise", "NoResultError"))
        else:
            out.add(("value", step["value"]) if k == "fire" else ("raise", exc))
    return out, {first}, {"sync": False, "winners": winners}


class UserError(Exception):
    pass


EXC = {"UserError": UserError, "KeyboardInterrupt": KeyboardInterrupt, "SystemExit": SystemExit}
SPINNER_ERRORS = ("TimeoutError", "NoResultError", "StaleJunkError", "ReentryError")


def classify(e, spinner_classes):
    """The label of an exception that left run().  The spinner's own errors are recognised by isinstance against the
    classes the module exports under the documented names (a renamed class behind the public alias, or a subclass,
    still 'raises TimeoutError / NoResultError'), never by the name of the class.  Everything else is labelled with
    its class name - qualified with its module when the bare name would read like one of the spinner's errors (the
    builtin TimeoutError) or like one of the harness's own exception classes without being it."""
    for name, cls in spinner_classes:
        if isinstance(e, cls):
            return name
    name = type(e).__name__
    if name in SPINNER_ERRORS or (name in EXC and type(e) is not EXC[name]):
        return "%s.%s" % (type(e).__module__, name)
    return name


class Hostile:
    """A value that claims to be equal to everything (a sentinel compared with == / != instead of 'is' is fooled)."""

    def __eq__(self, other):
        return True

    def __ne__(self, other):
        return False

    def __hash__(self):
        return 0

    def __repr__(self):
        return "<HOSTILE>"


class SReactor(VReactor):
    """A VReactor that (a) knows which delayed calls the harness scheduled itself (``own``): every other delayed
    call was scheduled by the code under test and is remembered in ``foreign`` together with the number of the run
    and whether f had been called yet; (b) can deliver SIGTERM / a bare reactor.stop() as well as SIGINT; (c) like
    the real reactors cannot be run again once its real stop() has been called."""

    def __init__(self, ties=()):
        VReactor.__init__(self, ties)
        self.foreign = []          # (DelayedCall, run number, True if f had not been called yet in that run)
        self.run_no = 0
        self.f_called = False
        self._own = False
        self.stopped_for_good = False

    def own(self, delay, f, *a, **kw):
        self._own = True
        try:
            return self.callLater(delay, f, *a, **kw)
        finally:
            self._own = False

    def callLater(self, delay, f, *a, **kw):
        c = VReactor.callLater(self, delay, f, *a, **kw)
        if not self._own:
            self.foreign.append((c, self.run_no, not self.f_called))
        return c

    def stop_request_at(self, t, how):
        """At virtual time t: deliver SIGINT / SIGTERM to whatever handler is installed then, or call reactor.stop()
        (looked up then) from outside any delayed call."""
        if how == "stop":
            def deliver():
                self.interrupts_delivered += 1
                self.stop()
        else:
            def deliver():
                self.interrupts_delivered += 1
                h = signal.getsignal(getattr(signal, how))
                if callable(h):
                    h(getattr(signal, how), None)
        self.at(t, deliver)

    def stop(self):
        # like ReactorBase.stop(): refused before the first run() and after an earlier real stop(), NOT merely because
        # crash() was called earlier in this pass or run (crash() does not mark the reactor as stopped)
        if self.stopped_for_good or not self.runs:
            from twisted.internet.error import ReactorNotRunning
            raise ReactorNotRunning("Can't stop reactor that isn't running.")
        self.running = False
        self.stopped_for_good = True

    def run(self, installSignalHandlers=True):
        if self.stopped_for_good:
            from twisted.internet.error import ReactorNotRestartable
            raise ReactorNotRestartable()
        return VReactor.run(self, installSignalHandlers)


def run_case(spec):
    from testtools.twistedsupport._spinner import (Spinner, TimeoutError, NoResultError, ReentryError, StaleJunkError)
    from twisted.internet import defer
    vs = []
    with SignalSandbox():
        reactor = SReactor()
        spinner = Spinner(reactor)
        # the classes as the module exports them under the documented names, looked up at run time
        spinner_classes = (("TimeoutError", TimeoutError), ("NoResultError", NoResultError),
                           ("StaleJunkError", StaleJunkError), ("ReentryError", ReentryError))
        hostile = Hostile()
        original_stop = reactor.stop
        junk_pending = 0
        nruns = 0
        previous_results = []
        unfinished = []          # Deferreds of earlier runs that ended (timeout / interrupt) before they fired
        had_interrupt = had_left = False
        for n, step in enumerate(spec["history"]):
            if step["op"] == "clear_junk":
                got = spinner.clear_junk()
                if len(got) != junk_pending:
                    vs.append(V("junk", "clear_junk-count", "clear_junk() returned %d items, model has %d pending" % (len(got), junk_pending)))
                junk_pending = 0
                continue
            nruns += 1
            pre = {}
            for name, h in zip(("SIGINT", "SIGTERM", "SIGCHLD"), step["handlers"]):
                pre[name] = resolve_handler(h)
                signal.signal(getattr(signal, name), pre[name])
            reactor.ties = list(step["ties"])
            reactor._tie_pos = 0
            if step.get("own_stop"):
                class_stop = type(reactor).stop

                def wrapped_stop(reactor=reactor, class_stop=class_stop):
                    return class_stop(reactor)
                reactor.stop = wrapped_stop          # an instance attribute, as a monkey-patching application leaves it
            elif "stop" in vars(reactor):
                del reactor.stop
            original_stop = reactor.stop
            base = reactor.seconds()
            fired_extra = []
            extra_calls = {}         # j -> the harness's own DelayedCall
            readers = []             # the selectables registered for this run
            inner = []
            late_inner = []
            # the extra delayed calls; with late_reenter one more, due at the very instant the Deferred fires (or the
            # timeout elapses), which tries to re-enter spinner.run - possibly after the reactor was crashed in the same
            # pass, when run() has still not returned
            extras = list(step["extra"])
            late_j = None
            if step.get("late_reenter") and step["kind"] in ("fire", "fail", "never"):
                late_j = len(extras)
                extras.append(step["t"] if step["kind"] in ("fire", "fail") else step["timeout"])

            def extra_fn(j):
                if j == late_j:
                    try:
                        late_inner.append(("returned", spinner.run(1, lambda: "inner")))
                    except ReentryError:
                        late_inner.append(("ReentryError",))
                    except Exception as e:
                        late_inner.append(("other", classify(e, spinner_classes)))
                fired_extra.append(j)

            fired_old = []
            current = []
            thrown = []              # the exception instance f raised / failed its Deferred with
            result_calls = []        # the harness's delayed call that fires / fails f's Deferred
            value = hostile if step["value"] == "HOSTILE" else step["value"]
            before = bool(step.get("extra_before")) and not junk_pending      # leftovers exist before run() instead of being made by f
            reactor.run_no += 1
            reactor.f_called = False

            def f(*args, **kwargs):
                reactor.f_called = True
                if args != (1, "two") or kwargs != {"k": 3}:
                    raise AssertionError("run() did not hand over its extra arguments: %r %r" % (args, kwargs))
                step_ = step
                if step_.get("fire_old") and unfinished:
                    fired_old.append(True)
                    if step_["fire_old"] == "errback":
                        unfinished.pop(0).errback(UserError("STALE failure of an earlier run"))
                    else:
                        unfinished.pop(0).callback("STALE")
                if not step.get("extra_before"):
                    for j, dly in enumerate(extras):
                        extra_calls[j] = reactor.own(dly, extra_fn, j)
                if not before:
                    for j in range(step["selectables"]):
                        readers.append(object())
                        reactor.addReader(readers[-1])
                for _ in range(step["reenter"]):
                    try:
                        inner.append(("returned", spinner.run(1, lambda: "inner")))
                    except ReentryError:
                        inner.append(("ReentryError",))
                    except Exception as e:
                        inner.append(("other", classify(e, spinner_classes)))
                k = step["kind"]
                if k == "return":
                    return value
                if k == "raise":
                    thrown.append(EXC[step.get("exc") or "UserError"]("sync", n))
                    raise thrown[0]
                d = defer.Deferred()
                current.append(d)
                if k == "fire":
                    result_calls.append(reactor.own(step["t"], d.callback, value))
                elif k == "fail":
                    thrown.append(EXC[step.get("exc") or "UserError"]("async", n))
                    result_calls.append(reactor.own(step["t"], d.errback, thrown[0]))
                return d
            sigs = step.get("sigs") or ["SIGINT", "SIGINT"]
            if step["interrupt"] is not None:
                reactor.stop_request_at(base + step["interrupt"], sigs[0])
                if step.get("interrupt2") is not None:
                    reactor.stop_request_at(base + step["interrupt2"], sigs[1])
            if before:
                for j, dly in enumerate(extras):
                    extra_calls[j] = reactor.own(dly, extra_fn, j)
                for j in range(step["selectables"]):
                    readers.append(object())
                    reactor.addReader(readers[-1])
            fired_from = len(reactor.fired)
            raised = None
            try:
                res = ("value", spinner.run(step["timeout"], f, 1, "two", k=3))
            except Hang as e:
                # nothing is scheduled any more (or 10000 passes went by) and the reactor was not stopped: run() would
                # never return, whatever f's Deferred does later
                vs.append(V("result", "run-never-ends", "step %d %r: %s" % (n, {k: step[k] for k in ("kind", "t", "timeout", "interrupt")}, e)))
                break
            except BaseException as e:
                if isinstance(e, (MemoryError, RecursionError)):
                    raise
                res = ("raise", classify(e, spinner_classes))
                raised = e
            if res[0] == "value" and res[1] is hostile:
                res = ("value", "HOSTILE")
            # drop external events that never fired (the interrupt came too late)
            reactor.external = [e for e in reactor.external if not e[2] and False]
            label = "run%d" % min(nruns, 2)
            if junk_pending:
                if res != ("raise", "StaleJunkError"):
                    vs.append(V("stale-junk", "accepted", "run() with %d junk items pending gave %r instead of StaleJunkError" % (junk_pending, res)))
                # nothing ran; process state must be untouched
                for name in pre:
                    if signal.getsignal(getattr(signal, name)) != pre[name]:
                        vs.append(V("restore", "signal-after-StaleJunkError", "%s handler changed by a refused run" % name))
                if reactor.stop != original_stop:
                    vs.append(V("restore", "reactor.stop-after-StaleJunkError", "reactor.stop is %r after a refused run, was %r" % (reactor.stop, original_stop)))
                    reactor.stop = original_stop
                if reactor.getDelayedCalls() or reactor.running:
                    vs.append(V("restore", "reactor-after-StaleJunkError", "a refused run left %d delayed calls (running=%r)" % (len(reactor.getDelayedCalls()), reactor.running)))
                    for c in reactor.getDelayedCalls():
                        c.cancel()
                # the interrupt we scheduled is moot
                continue
            admissible, ends, info = model_run(step)
            w = info.get("winners", [])
            if "timeout" in w and "result" in w and "interrupt" not in w:
                # both timed calls were due in the same reactor pass: whichever the reactor ran first decides
                # The spinner's timeout call is recognised by what it is, not by its name: a delayed call that the
                # code under test (not the harness) scheduled during this run() before f was called and that is due
                # exactly ``timeout`` after the start.  The result call is the harness's own.  If no such timeout call
                # exists (a spinner that keeps time differently) both outcomes stay admissible.
                timeout_calls = [c for c, run_no, early in reactor.foreign
                                 if run_no == reactor.run_no and early and c.getTime() == base + step["timeout"]]
                order = []
                for tm, c in reactor.fired[fired_from:]:
                    if any(c is tc for tc in timeout_calls):
                        order.append("timeout")
                    elif any(c is rc for rc in result_calls):
                        order.append("result")
                if timeout_calls and order[:1] == ["timeout"]:
                    admissible = {("raise", "TimeoutError")}
                elif timeout_calls and order[:1] == ["result"]:
                    admissible = {("value", step["value"]) if step["kind"] == "fire" else ("raise", step.get("exc") or "UserError")}
            wrong_result = res not in admissible
            if wrong_result and fired_old:
                # the callbacks an earlier run left on its Deferred act on this run (its result, its timeout call)
                vs.append(V("result", "stale-deferred-of-an-earlier-run", "step %d: f fired the Deferred an earlier, timed-out run was waiting for; run() gave %r, "
                            "its own function's result admits %s" % (n, res, sorted(map(repr, admissible)))))
                break
            if current and res in (("raise", "TimeoutError"), ("raise", "NoResultError")) and not current[0].called:
                unfinished.append(current[0])
            if wrong_result:
                want = sorted(map(repr, admissible))
                if res in previous_results:
                    bucket = "stale-result-of-an-earlier-run"
                else:
                    bucket = "%s-instead-of-%s" % (res[1] if res[0] == "raise" else "value", "|".join(
                        (a[1] if a[0] == "raise" else "value") for a in sorted(admissible, key=repr)))
                vs.append(V("result", bucket, "step %d %r: run() gave %r, model admits %s (earlier results on this spinner: %r)" % (
                    n, {k: step[k] for k in ("kind", "t", "timeout", "interrupt", "value")}, res, want, previous_results)))
            previous_results.append(res)
            if not wrong_result and raised is not None and thrown and res == ("raise", type(thrown[0]).__name__) and (
                    type(raised) is not type(thrown[0]) or raised.args != thrown[0].args):
                # 'raises the exception f raised / its Deferred failed with': at least the same class with the same arguments
                vs.append(V("result", "exception-not-the-one-raised", "step %d: f %s %r, run() raised %r" % (
                    n, "raised" if step["kind"] == "raise" else "failed its Deferred with", thrown[0], raised)))
            if step["reenter"] and inner != [("ReentryError",)] * step["reenter"]:
                vs.append(V("reentry", "accepted", "re-entrant run() calls gave %r" % (inner,)))
            if late_inner and late_inner != [("ReentryError",)]:
                vs.append(V("reentry", "accepted-from-a-delayed-call", "spinner.run() called from a delayed call while run() had not returned gave %r" % (late_inner,)))
            # ---- process / reactor state
            if reactor.running:
                vs.append(V("restore", "reactor-running", "reactor still running after run()"))
                reactor.running = False
            left = reactor.getDelayedCalls()
            if left:
                vs.append(V("restore", "delayed-calls-left", "%d delayed calls still pending after run()" % len(left)))
                for c in left:
                    c.cancel()
            if reactor.readers:
                vs.append(V("restore", "selectables-left", "%d selectables still registered" % len(reactor.readers)))
                reactor.readers = []
            if reactor.stop != original_stop:
                vs.append(V("restore", "reactor.stop" + ("-instance-attribute" if step.get("own_stop") else ""),
                            "reactor.stop is %r, was %r" % (reactor.stop, original_stop)))
                reactor.stop = original_stop
            for name in pre:
                now = signal.getsignal(getattr(signal, name))
                if now != pre[name]:
                    vs.append(V("restore", "signal-%s-%s" % (name, step["handlers"][("SIGINT", "SIGTERM", "SIGCHLD").index(name)]),
                                "%s handler is %r after run(), was %r" % (name, now, pre[name])))
            # ---- leftovers are junk; calls before the end fired exactly once
            if wrong_result:
                junk_pending = len(spinner.get_junk())
                continue
            end = reactor.seconds() - base
            if not info.get("sync") and end not in ends:
                vs.append(V("result", "end-time", "run ended at virtual time %r, model says %r" % (end, sorted(ends))))
            junk = spinner.get_junk()
            new_junk = len(junk) - junk_pending
            lo = hi = 0
            for j, dly in enumerate(extras):
                n_fired = fired_extra.count(j)
                if n_fired > 1:
                    vs.append(V("calls", "fired-twice", "a delayed call fired %d times" % n_fired))
                if dly < end and n_fired != 1:
                    vs.append(V("calls", "due-call-not-fired", "a call due at %r did not fire before the run ended at %r" % (dly, end)))
                if dly > end:
                    if n_fired:
                        vs.append(V("calls", "late-call-fired", "a call due at %r fired although the run ended at %r" % (dly, end)))
                    elif j in extra_calls and not any(x is extra_calls[j] for x in junk):
                        # 'leftovers are cancelled or removed and reported as junk': the leftover itself
                        vs.append(V("junk", "leftover-call-not-in-junk", "the delayed call due at %r was left over when the run ended at %r, but it is not among the junk %r" % (dly, end, junk)))
                    lo += 1
                    hi += 1
                elif dly == end and not n_fired:
                    lo += 1
                    hi += 1
            # the spinner's own timeout call and the pending result call may be left over too
            extra_possible = 0
            if res == ("raise", "NoResultError") or (res[0] == "raise" and res[1] == "TimeoutError"):
                if step["kind"] in ("fire", "fail") and step["t"] >= end:
                    extra_possible += 1
            if res == ("raise", "NoResultError"):
                extra_possible += 1          # the timeout call
            lo_total, hi_total = lo + step["selectables"], hi + step["selectables"] + extra_possible
            # be exact where the model is exact
            exact = None
            if res == ("raise", "NoResultError"):
                pend_result = 1 if step["kind"] in ("fire", "fail") and (step["t"] > end or (step["t"] == end)) else 0
                exact = lo + step["selectables"] + 1 + pend_result if step["kind"] not in ("fire", "fail") or step["t"] != end else None
            for r in readers:
                if not any(x is r for x in junk):
                    vs.append(V("junk", "selectable-not-in-junk", "a selectable registered for this run is not among the junk %r" % (junk,)))
                    break
            if not (lo_total <= new_junk <= hi_total):
                vs.append(V("junk", "count", "%d new junk items reported, model expects between %d and %d (extra calls %r, end %r, result %r)" % (
                    new_junk, lo_total, hi_total, extras, end, res)))
            junk_pending = len(junk)
            if step["interrupt"] is not None:
                had_interrupt = True
            if new_junk:
                had_left = True
    nt = nruns >= 2 or had_interrupt or had_left
    return Case(vs, nt, ["runs=%d" % min(nruns, 4), "interrupt" if had_interrupt else "", "leftovers" if had_left else ""] +
                sorted({"kind=" + s["kind"] for s in spec["history"] if s["op"] == "run"}), {"runs": nruns})


def custom_real_reactor(ctx):
    """Timing-insensitive subset on the real global reactor (differential for the virtual one)."""
    from twisted.internet import reactor, defer
    from testtools.twistedsupport._spinner import Spinner
    out = []
    with SignalSandbox():
        for i, (kind, value) in enumerate([("return", 1), ("raise", None), ("fire", "x"), ("fail", None), ("return", None), ("fire", (1,))] * (5 if ctx["tier"] == "thorough" else 1)):
            vs = []
            spinner = Spinner(reactor)
            pre = {n: signal.getsignal(getattr(signal, n)) for n in ("SIGINT", "SIGTERM", "SIGCHLD")}

            def f():
                reactor.callLater(0, lambda: None)
                if kind == "return":
                    return value
                if kind == "raise":
                    raise UserError("x")
                d = defer.Deferred()
                reactor.callLater(0, d.callback if kind == "fire" else d.errback, value if kind == "fire" else UserError("y"))
                return d
            try:
                res = ("value", spinner.run(30, f))
            except UserError:
                res = ("raise", "UserError")
            want = ("value", value) if kind in ("return", "fire") else ("raise", "UserError")
            if res != want:
                vs.append(V("result", "real-reactor", "real reactor: %r instead of %r" % (res, want)))
            if reactor.running or [c for c in reactor.getDelayedCalls()]:
                vs.append(V("restore", "real-reactor-state", "real reactor left running=%r calls=%r" % (reactor.running, reactor.getDelayedCalls())))
            for n in pre:
                if signal.getsignal(getattr(signal, n)) != pre[n]:
                    vs.append(V("restore", "real-reactor-signal-" + n, "%s handler not restored on the real reactor" % n))
            spinner.clear_junk()
            out.append(({"real_reactor": kind, "value": value, "i": i}, Case(vs, i > 0, ["real-reactor"])))
    return out


def _step(kind, timeout, **kw):
    step = {"op": "run", "kind": kind, "timeout": timeout, "fire_old": False, "extra_before": False,
            "t": None, "value": "v", "extra": [], "selectables": 0, "interrupt": None, "reenter": 0, "ties": [],
            "handlers": ["SIG_DFL", "default_int_handler", "pyfunc"], "own_stop": False, "exc": "UserError",
            "interrupt2": None, "sigs": ["SIGINT", "SIGINT"], "late_reenter": False}
    step.update(kw)
    return step


def _enum_corners():
    """Small exhaustive grid for the dimensions that the random histories reach in a few per cent of the cases only
    (third audit A1-A3 and the open items of the second), so that they are met at every seed."""
    clear = {"op": "clear_junk"}
    after = _step("return", 2)
    # one or two stop requests (SIGINT / SIGTERM / a bare reactor.stop()), the second in the same reactor pass or later;
    # then the same spinner and reactor must be usable again
    for kind, t in (("never", None), ("fire", 3), ("fail", 3)):
        for first in ("SIGINT", "SIGTERM", "stop"):
            for second in (None, "SIGINT", "SIGTERM", "stop"):
                for at2 in ((1, 2) if second else (None,)):
                    for ties in ([], [1]):
                        yield {"history": [_step(kind, 5, t=t, interrupt=1, interrupt2=at2, sigs=[first, second or "SIGINT"], ties=ties, extra=[7]),
                                           clear, after]}
    # what f raises / its Deferred fails with is not an Exception; a value equal to everything
    for exc in ("UserError", "KeyboardInterrupt", "SystemExit"):
        yield {"history": [_step("raise", 2, exc=exc), after]}
        yield {"history": [_step("fail", 2, t=1, exc=exc), after]}
        yield {"history": [_step("fail", 2, t=0, exc=exc), after]}
    for value in ("HOSTILE", None, 0):
        yield {"history": [_step("return", 2, value=value), _step("fire", 2, t=1, value=value), _step("fire", 2, t=0, value=value)]}
    # timeout 0
    for ties in ([], [1]):
        yield {"history": [_step("return", 0, ties=ties), _step("raise", 0, ties=ties)]}
        yield {"history": [_step("never", 0, ties=ties), clear, after]}
        yield {"history": [_step("fire", 0, t=0, ties=ties), clear, after]}
        yield {"history": [_step("fire", 0, t=1, ties=ties), clear, after]}
        yield {"history": [_step("fail", 0, t=2, ties=ties, extra=[0, 1]), clear, after]}
    # selectables (and delayed calls) that exist before run() is called
    for kind, t in (("return", None), ("raise", None), ("fire", 1), ("never", None)):
        for nsel in (1, 2):
            for extra in ([], [7], [0, 7]):
                yield {"history": [_step(kind, 2, t=t, extra_before=True, selectables=nsel, extra=extra), clear, after]}
    # spinner.run() from a delayed call due at the instant the run ends (before / after the reactor was crashed in that pass)
    for kind, t in (("fire", 1), ("fail", 1), ("never", None)):
        for ties in ([0], [1], [2], [0, 1], [1, 1]):
            for before in (False, True):
                yield {"history": [_step(kind, 2, t=t, late_reenter=True, ties=ties, extra_before=before), clear, after]}
    # timeout and result due in the same reactor pass: whichever the reactor ran first decides
    for kind in ("fire", "fail"):
        for T in (1, 2.5, 0):
            for ties in ([0], [1], [0, 1], [1, 0], [2], [1, 1]):
                for before in (False, True):
                    yield {"history": [_step(kind, T, t=T, ties=ties, extra=[T] if before else [], extra_before=before), clear, after]}


def subchecks(tier):
    q = tier == "quick"
    return [
        Sub("spinner_histories", run_case, st.fixed_dictionaries({"history": HISTORY}), 2500 if q else 120000),
        Sub("corner_grid", run_case, enum=_enum_corners, enum_complete=True),
        Sub("real_reactor_subset", run_case, custom=custom_real_reactor),
    ]
