"""C15 - Spinner returns the function's own result within the timeout, restores the process."""
import signal

from hypothesis import strategies as st

from vp.core import Case, Sub, V
from vp.vreactor import VReactor, SignalSandbox, Hang

PROPERTY = "C15"
RULE = ("Model-based histories on ONE Spinner over a deterministic virtual-time reactor: each step is run(timeout, f) "
        "with f returning / raising synchronously or returning a Deferred that fires / fails at a generated time "
        "(before, equal to, after the timeout, or never), scheduling 0..3 further delayed calls and registering 0..2 "
        "selectables, optionally re-entering spinner.run (once or twice), with an optional interrupt (SIGINT "
        "delivered at a generated virtual instant), generated tie-breaking between calls due at the same instant and "
        "generated pre-installed SIGINT/SIGTERM/SIGCHLD handlers; or clear_junk(). Oracle from the statement: "
        "result / exception / TimeoutError / NoResultError / ReentryError / StaleJunkError by a timeline model "
        "(ties admit either outcome), reactor not running, no delayed calls or selectables left, leftovers reported "
        "as junk, reactor.stop and the three signal handlers restored. A small real-reactor tier (thorough) runs the "
        "timing-insensitive subset on the global reactor. Also: f firing (callback or errback) the Deferred an earlier unfinished run waited on, delayed calls that exist before run(), positional and keyword arguments of run(), fractional timeouts, reactor.stop and pending calls after a refused run. "
        "Non-trivial: second or later run on the same spinner, or "
        "an interrupt, or leftovers; distinct = distinct canonical history.")
ASSUMPTIONS = [
    "the virtual reactor (task.Clock + ~120 lines) is faithful for what Spinner touches; ties at one virtual instant admit either order",
    "the spinner's own timeout call, still pending when the reactor is interrupted, counts as a leftover (it is cancelled and reported as junk)",
]

TIMES = [0, 1, 2, 3, 5]
HANDLERS = ["SIG_DFL", "SIG_IGN", "default_int_handler", "pyfunc"]


@st.composite
def s_run(draw):
    kind = draw(st.sampled_from(["return", "raise", "fire", "fail", "never", "fire", "fail"]))
    step = {"op": "run", "kind": kind, "timeout": draw(st.sampled_from([1, 2, 3, 5, 0.5, 2.5])),
            # f fires the Deferred an earlier, unfinished run of this spinner was waiting for (if there is one)
            "fire_old": draw(st.sampled_from([False, False, False, "callback", "errback"])),
            "extra_before": draw(st.booleans()),       # the extra delayed calls exist before run() is called, not made by f
            "t": draw(st.sampled_from(TIMES)) if kind in ("fire", "fail") else None,
            "value": draw(st.sampled_from([None, 0, "v", (1, 2)])),
            "extra": draw(st.lists(st.sampled_from(TIMES + [7]), max_size=3)),
            "selectables": draw(st.integers(0, 2)) if draw(st.integers(0, 3)) == 0 else 0,
            "interrupt": draw(st.one_of(st.none(), st.none(), st.sampled_from(TIMES))),
            "reenter": draw(st.sampled_from([0, 0, 0, 1, 2])),
            "ties": draw(st.lists(st.integers(0, 3), max_size=4)),
            "handlers": [draw(st.sampled_from(HANDLERS)) for _ in range(3)],
            "own_stop": draw(st.sampled_from([False, False, True]))}      # the application had wrapped reactor.stop on the instance
    return step


HISTORY = st.lists(st.one_of(s_run(), s_run(), st.just({"op": "clear_junk"})), min_size=1, max_size=5)


def py_handler(*a):
    pass


def resolve_handler(name):
    return {"SIG_DFL": signal.SIG_DFL, "SIG_IGN": signal.SIG_IGN, "default_int_handler": signal.default_int_handler,
            "pyfunc": py_handler}[name]


def model_run(step):
    """-> (set of admissible results, end times admissible, info)  results: ('value', v) / ('raise', name)."""
    T = step["timeout"]
    k = step["kind"]
    ti = step["interrupt"]
    # candidate terminating events: (time, label)
    events = []
    if k in ("return", "raise"):
        # completes synchronously at time 0 inside callWhenRunning, before any timed event
        res = ("value", step["value"]) if k == "return" else ("raise", "UserError")
        return {res}, {0}, {"sync": True}
    events.append((T, "timeout"))
    if k in ("fire", "fail"):
        events.append((step["t"], "result"))
    if ti is not None:
        events.append((ti, "interrupt"))
    first = min(t for t, _ in events)
    winners = [lab for t, lab in events if t == first]
    out = set()
    for w in winners:
        if w == "timeout":
            out.add(("raise", "TimeoutError"))
        elif w == "interrupt":
            out.add(("raise", "NoResultError"))
        else:
            out.add(("value", step["value"]) if k == "fire" else ("raise", "UserError"))
    return out, {first}, {"sync": False, "winners": winners}


class UserError(Exception):
    pass


def run_case(spec):
    from testtools.twistedsupport._spinner import (Spinner, TimeoutError, NoResultError, ReentryError, StaleJunkError)
    from twisted.internet import defer
    vs = []
    with SignalSandbox():
        reactor = VReactor()
        spinner = Spinner(reactor)
        original_stop = reactor.stop
        junk_pending = 0
        nruns = 0
        previous_results = []
        unfinished = []          # Deferreds of earlier runs that ended (timeout / interrupt) before they fired
        had_interrupt = had_left = False
        for n, step in enumerate(spec["history"]):
            if step["op"] == "clear_junk":
                got = spinner.clear_junk()
                if len(got) != junk_pending:
                    vs.append(V("junk", "clear_junk-count", "clear_junk() returned %d items, model has %d pending" % (len(got), junk_pending)))
                junk_pending = 0
                continue
            nruns += 1
            pre = {}
            for name, h in zip(("SIGINT", "SIGTERM", "SIGCHLD"), step["handlers"]):
                pre[name] = resolve_handler(h)
                signal.signal(getattr(signal, name), pre[name])
            reactor.ties = list(step["ties"])
            reactor._tie_pos = 0
            if step.get("own_stop"):
                class_stop = type(reactor).stop

                def wrapped_stop(reactor=reactor, class_stop=class_stop):
                    return class_stop(reactor)
                reactor.stop = wrapped_stop          # an instance attribute, as a monkey-patching application leaves it
            elif "stop" in vars(reactor):
                del reactor.stop
            original_stop = reactor.stop
            base = reactor.seconds()
            fired_extra = []
            inner = []

            fired_old = []
            current = []

            def f(*args, **kwargs):
                if args != (1, "two") or kwargs != {"k": 3}:
                    raise AssertionError("run() did not hand over its extra arguments: %r %r" % (args, kwargs))
                step_ = step
                if step_.get("fire_old") and unfinished:
                    fired_old.append(True)
                    if step_["fire_old"] == "errback":
                        unfinished.pop(0).errback(UserError("STALE failure of an earlier run"))
                    else:
                        unfinished.pop(0).callback("STALE")
                if not step.get("extra_before"):
                    for j, dly in enumerate(step["extra"]):
                        reactor.callLater(dly, fired_extra.append, j)
                for j in range(step["selectables"]):
                    reactor.addReader(object())
                for _ in range(step["reenter"]):
                    try:
                        inner.append(("returned", spinner.run(1, lambda: "inner")))
                    except ReentryError:
                        inner.append(("ReentryError",))
                    except Exception as e:
                        inner.append(("other", type(e).__name__))
                k = step["kind"]
                if k == "return":
                    return step["value"]
                if k == "raise":
                    raise UserError("sync")
                d = defer.Deferred()
                current.append(d)
                if k == "fire":
                    reactor.callLater(step["t"], d.callback, step["value"])
                elif k == "fail":
                    reactor.callLater(step["t"], d.errback, UserError("async"))
                return d
            if step["interrupt"] is not None:
                reactor.interrupt_at(base + step["interrupt"])
            if step.get("extra_before") and not junk_pending:
                for j, dly in enumerate(step["extra"]):
                    reactor.callLater(dly, fired_extra.append, j)
            fired_from = len(reactor.fired)
            try:
                res = ("value", spinner.run(step["timeout"], f, 1, "two", k=3))
            except Hang:
                raise
            except BaseException as e:
                if isinstance(e, (MemoryError, RecursionError)):
                    raise
                res = ("raise", type(e).__name__)
            # drop external events that never fired (the interrupt came too late)
            reactor.external = [e for e in reactor.external if not e[2] and False]
            label = "run%d" % min(nruns, 2)
            if junk_pending:
                if res != ("raise", "StaleJunkError"):
                    vs.append(V("stale-junk", "accepted", "run() with %d junk items pending gave %r instead of StaleJunkError" % (junk_pending, res)))
                # nothing ran; process state must be untouched
                for name in pre:
                    if signal.getsignal(getattr(signal, name)) != pre[name]:
                        vs.append(V("restore", "signal-after-StaleJunkError", "%s handler changed by a refused run" % name))
                if reactor.stop != original_stop:
                    vs.append(V("restore", "reactor.stop-after-StaleJunkError", "reactor.stop is %r after a refused run, was %r" % (reactor.stop, original_stop)))
                    reactor.stop = original_stop
                if reactor.getDelayedCalls() or reactor.running:
                    vs.append(V("restore", "reactor-after-StaleJunkError", "a refused run left %d delayed calls (running=%r)" % (len(reactor.getDelayedCalls()), reactor.running)))
                    for c in reactor.getDelayedCalls():
                        c.cancel()
                # the interrupt we scheduled is moot
                continue
            admissible, ends, info = model_run(step)
            w = info.get("winners", [])
            if "timeout" in w and "result" in w and "interrupt" not in w:
                # both timed calls were due in the same reactor pass: whichever the reactor ran first decides
                order = []
                for tm, c in reactor.fired[fired_from:]:
                    fn = getattr(c, "func", None)
                    if getattr(fn, "__name__", "") == "_timed_out":
                        order.append("timeout")
                    elif isinstance(getattr(fn, "__self__", None), defer.Deferred):
                        order.append("result")
                if order[:1] == ["timeout"]:
                    admissible = {("raise", "TimeoutError")}
                elif order[:1] == ["result"]:
                    admissible = {("value", step["value"]) if step["kind"] == "fire" else ("raise", "UserError")}
            wrong_result = res not in admissible
            if wrong_result and fired_old:
                # the callbacks an earlier run left on its Deferred act on this run (its result, its timeout call)
                vs.append(V("result", "stale-deferred-of-an-earlier-run", "step %d: f fired the Deferred an earlier, timed-out run was waiting for; run() gave %r, "
                            "its own function's result admits %s" % (n, res, sorted(map(repr, admissible)))))
                break
            if current and res in (("raise", "TimeoutError"), ("raise", "NoResultError")) and not current[0].called:
                unfinished.append(current[0])
            if wrong_result:
                want = sorted(map(repr, admissible))
                if res in previous_results:
                    bucket = "stale-result-of-an-earlier-run"
                else:
                    bucket = "%s-instead-of-%s" % (res[1] if res[0] == "raise" else "value", "|".join(
                        (a[1] if a[0] == "raise" else "value") for a in sorted(admissible, key=repr)))
                vs.append(V("result", bucket, "step %d %r: run() gave %r, model admits %s (earlier results on this spinner: %r)" % (
                    n, {k: step[k] for k in ("kind", "t", "timeout", "interrupt", "value")}, res, want, previous_results)))
            previous_results.append(res)
            if step["reenter"] and inner != [("ReentryError",)] * step["reenter"]:
                vs.append(V("reentry", "accepted", "re-entrant run() calls gave %r" % (inner,)))
            # ---- process / reactor state
            if reactor.running:
                vs.append(V("restore", "reactor-running", "reactor still running after run()"))
                reactor.running = False
            left = reactor.getDelayedCalls()
            if left:
                vs.append(V("restore", "delayed-calls-left", "%d delayed calls still pending after run()" % len(left)))
                for c in left:
                    c.cancel()
            if reactor.readers:
                vs.append(V("restore", "selectables-left", "%d selectables still registered" % len(reactor.readers)))
                reactor.readers = []
            if reactor.stop != original_stop:
                vs.append(V("restore", "reactor.stop" + ("-instance-attribute" if step.get("own_stop") else ""),
                            "reactor.stop is %r, was %r" % (reactor.stop, original_stop)))
                reactor.stop = original_stop
            for name in pre:
                now = signal.getsignal(getattr(signal, name))
                if now != pre[name]:
                    vs.append(V("restore", "signal-%s-%s" % (name, step["handlers"][("SIGINT", "SIGTERM", "SIGCHLD").index(name)]),
                                "%s handler is %r after run(), was %r" % (name, now, pre[name])))
            # ---- leftovers are junk; calls before the end fired exactly once
            if wrong_result:
                junk_pending = len(spinner.get_junk())
                continue
            end = reactor.seconds() - base
            if not info.get("sync") and end not in ends:
                vs.append(V("result", "end-time", "run ended at virtual time %r, model says %r" % (end, sorted(ends))))
            junk = spinner.get_junk()
            new_junk = len(junk) - junk_pending
            lo = hi = 0
            for j, dly in enumerate(step["extra"]):
                n_fired = fired_extra.count(j)
                if n_fired > 1:
                    vs.append(V("calls", "fired-twice", "a delayed call fired %d times" % n_fired))
                if dly < end and n_fired != 1:
                    vs.append(V("calls", "due-call-not-fired", "a call due at %r did not fire before the run ended at %r" % (dly, end)))
                if dly > end:
                    if n_fired:
                        vs.append(V("calls", "late-call-fired", "a call due at %r fired although the run ended at %r" % (dly, end)))
                    lo += 1
                    hi += 1
                elif dly == end and not n_fired:
                    lo += 1
                    hi += 1
            # the spinner's own timeout call and the pending result call may be left over too
            extra_possible = 0
            if res == ("raise", "NoResultError") or (res[0] == "raise" and res[1] == "TimeoutError"):
                if step["kind"] in ("fire", "fail") and step["t"] >= end:
                    extra_possible += 1
            if res == ("raise", "NoResultError"):
                extra_possible += 1          # the timeout call
            lo_total, hi_total = lo + step["selectables"], hi + step["selectables"] + extra_possible
            # be exact where the model is exact
            exact = None
            if res == ("raise", "NoResultError"):
                pend_result = 1 if step["kind"] in ("fire", "fail") and (step["t"] > end or (step["t"] == end)) else 0
                exact = lo + step["selectables"] + 1 + pend_result if step["kind"] not in ("fire", "fail") or step["t"] != end else None
            if not (lo_total <= new_junk <= hi_total):
                vs.append(V("junk", "count", "%d new junk items reported, model expects between %d and %d (extra calls %r, end %r, result %r)" % (
                    new_junk, lo_total, hi_total, step["extra"], end, res)))
            junk_pending = len(junk)
            if step["interrupt"] is not None:
                had_interrupt = True
            if new_junk:
                had_left = True
    nt = nruns >= 2 or had_interrupt or had_left
    return Case(vs, nt, ["runs=%d" % min(nruns, 4), "interrupt" if had_interrupt else "", "leftovers" if had_left else ""] +
                sorted({"kind=" + s["kind"] for s in spec["history"] if s["op"] == "run"}), {"runs": nruns})


def custom_real_reactor(ctx):
    """Timing-insensitive subset on the real global reactor (differential for the virtual one)."""
    from twisted.internet import reactor, defer
    from testtools.twistedsupport._spinner import Spinner
    out = []
    with SignalSandbox():
        for i, (kind, value) in enumerate([("return", 1), ("raise", None), ("fire", "x"), ("fail", None), ("return", None), ("fire", (1,))] * (5 if ctx["tier"] == "thorough" else 1)):
            vs = []
            spinner = Spinner(reactor)
            pre = {n: signal.getsignal(getattr(signal, n)) for n in ("SIGINT", "SIGTERM", "SIGCHLD")}

            def f():
                reactor.callLater(0, lambda: None)
                if kind == "return":
                    return value
                if kind == "raise":
                    raise UserError("x")
                d = defer.Deferred()
                reactor.callLater(0, d.callback if kind == "fire" else d.errback, value if kind == "fire" else UserError("y"))
                return d
            try:
                res = ("value", spinner.run(30, f))
            except UserError:
                res = ("raise", "UserError")
            want = ("value", value) if kind in ("return", "fire") else ("raise", "UserError")
            if res != want:
                vs.append(V("result", "real-reactor", "real reactor: %r instead of %r" % (res, want)))
            if reactor.running or [c for c in reactor.getDelayedCalls()]:
                vs.append(V("restore", "real-reactor-state", "real reactor left running=%r calls=%r" % (reactor.running, reactor.getDelayedCalls())))
            for n in pre:
                if signal.getsignal(getattr(signal, n)) != pre[n]:
                    vs.append(V("restore", "real-reactor-signal-" + n, "%s handler not restored on the real reactor" % n))
            spinner.clear_junk()
            out.append(({"real_reactor": kind, "value": value, "i": i}, Case(vs, i > 0, ["real-reactor"])))
    return out


def subchecks(tier):
    q = tier == "quick"
    return [
        Sub("spinner_histories", run_case, st.fixed_dictionaries({"history": HISTORY}), 2500 if q else 120000),
        Sub("real_reactor_subset", run_case, custom=custom_real_reactor),
    ]
