"""C13 - concurrent suites run every test once, deliver every event, and terminate."""
import types

from hypothesis import strategies as st

from vp.core import Case, Sub, V, HarnessError
from vp import history as H
from vp import sched as S
from vp import streams
from vp.results import Ext, OUTCOMES

PROPERTY = "C13"
RULE = ("ConcurrentTestSuite and ConcurrentStreamTestSuite are run with 1..4 generated workers (each 0..3 tests of any "
        "outcome, or raw status events, or a run() that raises after k tests; workers honour shouldStop like a suite "
        "does) under a deterministic scheduler: the names through which testtools.testsuite reaches threading / Queue "
        "are rebound to harness fakes for one case, so thread start/join, queue put/get, semaphore operations, every "
        "call on the caller's result, every make_tests step and every shouldStop read is a scheduling point; schedules "
        "are int lists drawn by Hypothesis or enumerated by DFS with <= k pre-emptions; faults: the caller's stream "
        "result raises at event k, or make_tests raises after yielding k sub-suites; make_tests eager or lazy (the next "
        "sub-suite only once the earlier ones have run), a bounded Queue blocks when full, the classic caller's result "
        "optionally failfast, a worker flooding 600 attachment events. Oracle: every worker run exactly "
        "once in its own thread, all finished when run() returns, every emitted event delivered exactly once in the "
        "worker's order (route code + timestamp for streams, contiguous blocks for the classic suite), broken runners "
        "reported, on abort the exception propagates and started workers read shouldStop == True afterwards, no "
        "deadlock. Also: sub-suites that compare equal or are unhashable, shared and absent route codes with events carrying their own route code, tags / times / runnable of delivered events, an interrupt in the calling thread while it waits for its workers, a second run of either suite, pre-emptions continuing after the explicit schedule. "
        "Also: an interrupt while the calling thread starts its (k+1)-th worker (the thread running) or Thread.start failing before there "
        "is a thread; without an abort (and without a failfast caller) no worker ever reads shouldStop == True and the caller's result is "
        "not stopped; the empty string as a worker's route code and as the route code an event carries; a test whose events are "
        "attachments (binary, empty, text; eof / mime_type / file_bytes compared field by field), an attachment without test id and an "
        "'exists' entry; the broken-runner report mentions the runner's own error; make_tests called (classic) with a suite holding "
        "the constructor's suite, (stream) without arguments; timeouts handed to join / acquire / get are honoured by the fakes. A small "
        "complete grid (abort sites x workers x schedules, route codes x own route codes, fault-free runs with failures) backs the rare ones. "
        "Non-trivial: >= 2 context switches between workers, or a fault; distinct = distinct spec.")
ASSUMPTIONS = [
    "instrumentation by rebinding testtools.testsuite.threading / Queue (vacuity guard: exit 2 if no fake thread was created)",
    "for ConcurrentTestSuite a fault in the caller's result strikes inside a worker thread: termination "
    "(no deadlock, run() returns, workers finished) is asserted for such cases, and - when the call that raised was "
    "the outcome - that the test is closed before another one is opened",
    "aborts are injected both as Exception and as non-Exception errors (an interrupt)",
    "after an abort the harness lets the remaining workers run to completion to observe what they read",
    "a runner that dies of a non-Exception error (SystemExit-like) may be reported as a broken runner or not (the statement "
    "says 'raises'; today it is not, DESIGN 11.2): both counts are accepted",
    "a suite may collect make_tests completely before it starts a thread: a run that asks the harness's *lazy* iterator for "
    "the second sub-suite before any thread exists is not judged (no deadlock verdict), and when make_tests raises before "
    "any thread was started nothing is required to have run; a suite that starts threads as it goes (today's) is held to "
    "'every sub-suite yielded before the failure ran once'",
    "'the caller's result raised' / 'the calling thread was interrupted' is known from the harness raising, not from call "
    "counts; the stream fault strikes the k-th status() call, other calls on the caller's stream result are let through",
    "the fake threading module models Thread (name, daemon, ident, is_alive, run, timed join), Semaphore / BoundedSemaphore / "
    "Lock (timed and non-blocking acquire), Event, current_thread; Queue models maxsize, get/put with block= and timeout=, "
    "*_nowait, qsize, full.  A timed wait: the first two per case that find their condition false time out at once, later "
    "ones time out when no other thread can run (virtual time).  Any other attribute of threading is a harness error (exit 2), "
    "not a violation",
    "a worker's events are recognised by test ids 'w<i>.*' (id-less attachments by file names 'w<i>.*'); no attachment is "
    "called 'reason' (DESIGN 11.2: a non-text 'reason' makes StreamSummary._skip raise inside the worker)",
    "make_tests(ConcurrentTestSuite) and make_tests(the suite given to the constructor) are both accepted (the docstring "
    "says 'a suite'); what the argument holds is read when make_tests is called (a suite may let go of its tests once run)",
    "a broken-runner report is a 'fail' (classic: addError) event whose test id starts with 'broken-runner'; what follows in the "
    "id is not judged.  With distinct route codes the report is attributed to a worker by the route code it arrives with",
    "wrap_result's 'thread number': one call per worker, each with an int of its own; where the numbering starts is not judged",
    "the second run goes through the make_tests callable the suite was constructed with (it makes one healthy worker the "
    "second time); nothing is assigned to the suite object",
    "Thread.start() raising before there is a thread (fault thread_start, started=False) is read as run() being aborted: the "
    "exception has to propagate and the workers started before are told to stop.  A suite that contained such a failure "
    "(reported it, went on) would be flagged abort:not-propagated; the statement does not say which",
]


class Fault(Exception):
    pass


class RunnerDied(BaseException):
    pass


class Interrupt(BaseException):
    """An abort that is not an Exception (what KeyboardInterrupt / SystemExit are)."""


FAULTS = (Fault, Interrupt)


KINDS = list(H.KINDS) + ["raw", "attach"]
STREAM_ONLY = ("raw", "attach", "flood")
WORKER = st.fixed_dictionaries({
    "tests": st.lists(st.sampled_from(KINDS), max_size=3),
    "raise_after": st.one_of(st.none(), st.none(), st.none(), st.integers(0, 3)),
    "base": st.sampled_from([False] * 5 + [True]),      # the runner breaks with a non-Exception error
})


@st.composite
def s_case(draw):
    suite = draw(st.sampled_from(["stream", "classic"]))
    workers = draw(st.lists(WORKER, min_size=1, max_size=4))
    if suite == "classic":
        for w in workers:
            w["tests"] = [k if k not in STREAM_ONLY else "success" for k in w["tests"]]
    fault = draw(st.one_of(st.none(), st.none(),
                           st.builds(lambda k, b: {"at": "make_tests", "k": k, "base": b}, st.integers(0, 4), st.booleans()),
                           st.builds(lambda k, b: {"at": "result", "k": k, "base": b}, st.integers(0, 12), st.booleans()),
                           # the calling thread is interrupted while it waits for its workers (where a real Ctrl-C lands)
                           st.builds(lambda k: {"at": "main_wait", "k": k, "base": True}, st.integers(0, 6)),
                           # ... or while it starts its (k+1)-th worker: Thread.start() waits for the new thread, so an
                           # interrupt lands there with the thread running (started=True); started=False is start()
                           # failing before there is a thread ("can't start new thread")
                           st.builds(lambda k, started: {"at": "thread_start", "k": k, "base": started, "started": started},
                                     st.integers(0, 3), st.booleans())))
    return {"suite": suite, "workers": workers, "fault": fault, "wrap_result": draw(st.sampled_from([False, True, "own_stop"])),
            "second_run": draw(st.booleans()),
            "eq_mode": draw(st.sampled_from(["identity", "identity", "all-equal", "unhashable"])),    # how the sub-suites compare / hash
            "routes": draw(st.sampled_from(["distinct", "distinct", "none", "shared", "empty"])),     # (stream) the workers' route codes
            "own_route": draw(st.sampled_from(["sub", "sub", ""])),    # (stream, routes != distinct) the route code raw events carry themselves
            "lazy": draw(st.sampled_from([False, False, True])),       # make_tests yields the next sub-suite only once the earlier ones are done
            "failfast": draw(st.sampled_from([False, False, False, True])),   # (classic) the caller's result stops at the first failure
            "tail": draw(st.one_of(st.none(), st.fixed_dictionaries({"seed": st.integers(0, 1 << 20), "p": st.sampled_from([2, 4, 8])}))),       # pre-emptions after the explicit schedule is used up
            "schedule": draw(st.lists(st.integers(0, 3), max_size=40)),
            "ephemeral": draw(st.sampled_from([False, False, True]))}      # sub-suites are objects only the suite under test refers to


def execute(spec, schedule=None):
    import testtools
    from testtools import testsuite as ts
    vs = []
    sched = S.Scheduler(spec["schedule"] if schedule is None else schedule, tail=spec.get("tail") if schedule is None else None)
    stream = spec["suite"] == "stream"
    state = {"aborted": False, "threads": 0, "main_done": False, "run_exc": None, "calls": 0, "started": set(),
             "status_calls": 0, "fault_raised": False, "mt_args": []}
    routes = spec.get("routes", "distinct")
    own_route = spec.get("own_route", "sub")

    def raise_fault(msg, base=None):
        f = spec["fault"]
        state["fault_raised"] = True
        raise (Interrupt if (f.get("base") if base is None else base) else Fault)(msg)

    def timed_wait(label, cond):
        """A wait with a timeout.  The first two of a case that find their condition false time out at once (a timeout
        can be shorter than whatever the other threads are doing); later ones wait in virtual time: until the condition
        holds, or - the timeout - until nothing else can happen (every other thread finished or blocked), so that a
        polling loop makes progress instead of spinning.  Returns whether the condition holds."""
        me = S.current_task()
        if me is None:
            return cond()
        if state.setdefault("early_timeouts", 0) < 2:
            sched.yield_point(label + ".early")
            if cond():
                return True
            state["early_timeouts"] += 1
            return False
        me.timed = cond

        def pred():
            if cond():
                return True
            for t in sched.tasks:
                if t is me or t.done:
                    continue
                other = getattr(t, "timed", None)
                if other is not None:
                    if other():
                        return False        # another timed waiter that can go on
                    continue                # ... or that is as stuck as this one
                if t.pred is None or t.pred():
                    return False
            return True
        try:
            sched.yield_point(label, pred=pred)
        finally:
            me.timed = None
        return cond()
    worker_log = []        # (wid, what, ...)
    caller_log = []        # (task tid, name, payload)
    sems = []

    fake_threads = []

    class FakeThread:
        def __init__(self, group=None, target=None, name=None, args=(), kwargs=None, daemon=None):
            self.target, self.args, self.kwargs = target, args, kwargs or {}
            self.task = None
            self.number = state["threads"]
            state["threads"] += 1
            if not state.get("second_phase"):
                state["threads_first"] = state.get("threads_first", 0) + 1
            self.name = name or "Thread-%d" % (self.number + 1)
            self.daemon = bool(daemon)
            self.ident = self.native_id = None

        def run(self):
            try:
                if self.target is not None:
                    self.target(*self.args, **self.kwargs)
            finally:
                # as threading.Thread.run does: a finished thread no longer keeps its target and arguments alive
                self.target, self.args, self.kwargs = None, (), {}

        def start(self):
            if self.task is not None:
                raise RuntimeError("threads can only be started once")
            f = spec["fault"]
            strike = bool(f and f["at"] == "thread_start" and f["k"] == self.number and not state.get("second_phase"))
            if strike and not f.get("started"):
                sched.yield_point("thread.start")
                raise_fault("thread %d could not be started" % self.number)
            self.task = sched.spawn(self.run, "W%d" % (self.number + 1))
            fake_threads.append(self)
            self.ident = self.native_id = 1000 + self.number
            sched.yield_point("thread.start")
            if strike:
                raise_fault("the calling thread was interrupted while it started thread %d" % self.number)

        def join(self, timeout=None):
            if self.task is None:
                raise RuntimeError("cannot join thread before it is started")
            if timeout is None:
                sched.yield_point("thread.join", pred=lambda: self.task.done)
            else:
                timed_wait("thread.join.timed", lambda: self.task.done)

        def is_alive(self):
            return self.task is not None and not self.task.done

        def getName(self):
            return self.name

        def setName(self, name):
            self.name = name

        def isDaemon(self):
            return self.daemon

        def setDaemon(self, daemonic):
            self.daemon = daemonic

    class Semaphore(S.FakeSemaphore):
        """vp.sched's semaphore, plus the timeout it accepts (virtual time, see timed_wait) and locked()."""

        def acquire(self, blocking=True, timeout=None):
            if blocking and timeout is not None and timeout >= 0:
                if not timed_wait("sem.acquire.timed", lambda: self.count > 0):
                    return False
                self.count -= 1
                self.min_seen = min(self.min_seen, self.count)
                self.holder = S.current_task()
                return True
            return S.FakeSemaphore.acquire(self, blocking)
        __enter__ = acquire

        def locked(self):
            return self.count <= 0

    def fake_semaphore(value=1):
        s = Semaphore(sched, value)
        sems.append(s)
        return s

    class FakeEvent:
        def __init__(self):
            self.flag = False

        def is_set(self):
            return self.flag
        isSet = is_set

        def set(self):
            self.flag = True
            sched.yield_point("event.set")

        def clear(self):
            self.flag = False

        def wait(self, timeout=None):
            if timeout is None:
                sched.yield_point("event.wait", pred=lambda: self.flag)
                return True
            return timed_wait("event.wait.timed", lambda: self.flag)

    def current_thread():
        t = S.current_task()
        return types.SimpleNamespace(name=t.name if t else "MainThread", ident=t.tid if t else 0, daemon=False, is_alive=lambda: True)
    # the whole of `threading` a suite can reasonably use; anything else (Condition, Timer, Barrier ..) is an
    # AttributeError in the calling thread, which execute() reports as a harness error, not as a violation
    class FakeThreading(types.SimpleNamespace):
        def __getattr__(self, name):
            state.setdefault("unmodelled", "threading." + name)
            raise AttributeError(name)
    fake_threading = FakeThreading(Thread=FakeThread, Semaphore=fake_semaphore, BoundedSemaphore=fake_semaphore,
                                   Lock=lambda: Semaphore(sched, 1), Event=FakeEvent,
                                   current_thread=current_thread, main_thread=current_thread,
                                   get_ident=lambda: current_thread().ident)

    class Caller:
        """The caller's result: records, yields before every call, may raise at event k."""

        def __init__(self):
            self.inner = streams.Recorder() if stream else Ext()
            if not stream and spec.get("failfast"):
                self.inner.failfast = True

        def __getattr__(self, name):
            attr = getattr(self.inner, name)
            if not callable(attr):
                return attr

            def call(*a, **kw):
                sched.yield_point("caller." + name)
                n = state["calls"]
                state["calls"] += 1
                t = S.current_task()
                caller_log.append((t.tid if t else None, name, a, kw, n))
                f = spec["fault"]
                if stream:
                    # the stream fault strikes the k-th status() call, whatever else the suite calls on the result
                    if name != "status":
                        return attr(*a, **kw)
                    n = state["status_calls"]
                    state["status_calls"] += 1
                if f and f["at"] == "result" and n == f["k"]:
                    raise_fault("caller's result raised at event %d" % n)
                return attr(*a, **kw)
            return call
    caller = Caller()

    class Worker:
        def __init__(self, wid, w):
            self.wid, self.w = wid, w
            self.runs = 0
            self.finished = False

        def __eq__(self, other):
            if spec.get("eq_mode", "identity") == "identity":
                return self is other
            return isinstance(other, Worker)        # like two TestCases of the same class and method, or two TestSuites
        if spec.get("eq_mode", "identity") == "unhashable":
            __hash__ = None                         # like unittest.TestSuite
        else:
            def __hash__(self):
                return hash("worker") if spec.get("eq_mode") == "all-equal" else hash(("worker", self.wid))

        def run(self, result):
            try:
                self._run(result)
            finally:
                self.finished = True

        def _run(self, result):
            self.runs += 1
            t = S.current_task()
            worker_log.append((self.wid, "run", t.name if t else None))
            state["started"].add(self.wid)
            for i, kind in enumerate(self.w["tests"]):
                sched.yield_point("worker.shouldStop")
                aborted_before = state["aborted"]      # the read below spans scheduling points
                stop = result.shouldStop
                worker_log.append((self.wid, "shouldStop", bool(stop), aborted_before))
                if stop:
                    return
                if self.w["raise_after"] == i:
                    worker_log.append((self.wid, "raised", bool(self.w.get("base"))))
                    raise (RunnerDied if self.w.get("base") else RuntimeError)("runner %d broke" % self.wid)
                tid = "w%d.t%d" % (self.wid, i)
                worker_log.append((self.wid, "test", tid, kind))
                if kind == "raw" and routes != "distinct":
                    # an event that already carries a route code of its own (a nested stream); "" is a string too
                    result.status(test_id=tid, test_status="inprogress", route_code=own_route, timestamp=None)
                    result.status(test_id=tid, test_status="success", route_code=own_route, runnable=False)
                elif kind == "attach":
                    # attachments whose every field matters, and events that belong to no test
                    for kw in attach_events(self.wid, i):
                        result.status(**kw)
                elif kind == "flood":
                    # one test with hundreds of attachment chunks
                    result.status(test_id=tid, test_status="inprogress")
                    for j in range(FLOOD):
                        result.status(test_id=tid, file_name="f", file_bytes=b"x", mime_type="text/plain")
                    result.status(test_id=tid, test_status="success")
                elif kind == "raw":
                    # a full-signature forwarder passes every keyword, timestamp=None included
                    result.status(test_id=tid, test_status="inprogress", timestamp=None)
                    result.status(test_id=tid, test_status="success")
                else:
                    testtools.PlaceHolder(tid, outcome=H.METHOD[kind], tags={"w%d" % self.wid},
                                          timestamps=(H.ts(100 * self.wid + 2 * i), H.ts(100 * self.wid + 2 * i + 1))).run(result)
            if self.w["raise_after"] is not None and self.w["raise_after"] >= len(self.w["tests"]):
                worker_log.append((self.wid, "raised", bool(self.w.get("base"))))
                raise (RunnerDied if self.w.get("base") else RuntimeError)("runner %d broke" % self.wid)
            sched.yield_point("worker.shouldStop")
            aborted_before = state["aborted"]
            worker_log.append((self.wid, "shouldStop", bool(result.shouldStop), aborted_before))
    workers = [Worker(i, w) for i, w in enumerate(spec["workers"])]

    class Handle:
        """A sub-suite object that lives only as long as the suite under test holds on to it (the harness keeps the
        Worker it delegates to, never the handle)."""
        # (an uncommon object size: the allocator hands a freed block to the next object of the same size class, so
        # with few other objects of this size the next handle is likely to get the address of the one just freed)
        __slots__ = ("run",) + tuple("pad%d" % i for i in range(39))

        def __init__(self, worker):
            self.run = worker.run

    def route_of(i):
        return {"distinct": "r%d" % i, "none": None, "shared": "r", "empty": ""}[routes]

    def make_tests(*a, **kw):
        if state.get("second_phase"):
            # the second run: the same callable the suite was built with now makes one healthy worker (nothing is
            # assigned to the suite object: where it keeps its make_tests is its own business)
            return [(state["ok_worker"], "again")] if stream else [state["ok_worker"]]
        held = None
        if not stream and len(a) == 1 and not kw:
            # what the argument holds now, at the call (a suite may let go of its tests once they have run)
            try:
                held = [getattr(t, "id", lambda: None)() for t in _leaves(a[0])]
            except Exception as e:
                held = repr(e)
        state["mt_args"].append((a, kw, held))
        return sub_suites()

    def sub_suites():
        f = spec["fault"]
        for i, w in enumerate(workers):
            if spec.get("lazy"):
                # an iterator that hands out the next sub-suite only when the earlier ones have run
                # (ephemeral sub-suites: ... and their threads have ended, so that nothing of the harness's keeps them alive)
                sched.yield_point("make_tests.next", pred=lambda: all(x.finished for x in workers[:i]) and (
                    not spec.get("ephemeral") or all(t.task is None or t.task.done for t in fake_threads)))
            else:
                sched.yield_point("make_tests.next")
            if f and f["at"] == "make_tests" and f["k"] == i:
                raise_fault("make_tests raised after %d sub-suites" % i)
            if spec.get("ephemeral"):
                # what a lazy make_tests really yields: an object nobody else refers to.  Once the suite lets go of
                # it the object is freed, and the next one may live at the same address.
                yield (Handle(w), route_of(i)) if stream else Handle(w)
            else:
                yield (w, route_of(i)) if stream else w
        if f and f["at"] == "make_tests" and f["k"] >= len(workers):
            sched.yield_point("make_tests.next")
            raise_fault("make_tests raised after all sub-suites")

    wrapped = []

    def wrap_result(tsr, n):
        wrapped.append(n)
        if spec.get("wrap_result") == "own_stop":
            from testtools.testresult.real import TestResultDecorator

            class OwnStop(TestResultDecorator):
                """A wrapper that keeps its own stop flag (like any TestResult subclass would)."""
                _stopped = False

                @property
                def shouldStop(self):
                    return self._stopped

                def stop(self):
                    self._stopped = True

                def __hash__(self):
                    return id(self)
            return OwnStop(tsr)
        return tsr

    second = {"done": False, "exc": None, "events": None}

    def main():
        try:
            if stream:
                suite = ts.ConcurrentStreamTestSuite(make_tests)
            else:
                import unittest
                suite = ts.ConcurrentTestSuite(unittest.TestSuite([testtools.PlaceHolder("c13.marker")]), make_tests, wrap_result if spec["wrap_result"] else None)
            try:
                try:
                    suite.run(caller)
                except BaseException as first_exc:
                    if not isinstance(first_exc, S.Killed):
                        state["aborted"] = True       # known from this instant on, whatever follows
                    raise
                # who is still running at the moment run() returns (before anything else is scheduled)
                state["unfinished_at_return"] = [t.name for t in sched.tasks if t.name.startswith("W") and not t.done]
            finally:
                state["wrapped_first"] = list(wrapped)
                if spec.get("second_run") and not stream:
                    # the same suite object used again, without faults, into a fresh result
                    rec2 = Ext()
                    state["ok_worker"] = Worker(90, {"tests": ["success", "failure"], "raise_after": None, "base": False})
                    state["second_phase"] = True
                    try:
                        suite.run(rec2)
                    except BaseException as e2:
                        if isinstance(e2, S.Killed):
                            raise
                        second["exc"] = e2
                    second["done"] = True
                    second["classic"] = True
                    second["events"] = [(e[0], e[1].id()) for e in rec2.events if e[0] in ("startTest", "stopTest") or e[0] in OUTCOMES]
                if spec.get("second_run") and stream:
                    # the same suite object used again, this time without any fault: a fresh, complete run
                    rec2 = streams.Recorder()
                    state["ok_worker"] = Worker(90, {"tests": ["success", "failure"], "raise_after": None, "base": False})
                    state["second_phase"] = True
                    try:
                        suite.run(rec2)
                    except BaseException as e2:
                        if isinstance(e2, S.Killed):
                            raise
                        second["exc"] = e2
                    second["done"] = True
                    second["events"] = [(x["test_id"], x["test_status"], x["route_code"]) for x in rec2.statuses() if x["file_name"] is None]
        except FAULTS as e:
            state["run_exc"] = e
            state["aborted"] = True
        except BaseException as e:
            if isinstance(e, S.Killed):
                raise
            state["run_exc"] = e
            state["aborted"] = True
        finally:
            state["main_done"] = True
            state.setdefault("unfinished_at_return", [t.name for t in sched.tasks if t.name.startswith("W") and not t.done])

    saved = (ts.threading, ts.Queue)
    import threading as real_threading
    import queue as real_queue
    saved_glob = (real_threading.Thread, real_threading.Semaphore, real_queue.Queue)
    ts.threading = fake_threading
    class WaitQueue(S.FakeQueue):
        """The queue the calling thread waits on: the k-th get() can be hit by an interrupt."""
        gets = 0

        def get(self, block=True, timeout=None):
            f = spec["fault"]
            t = S.current_task()
            if f and f["at"] == "main_wait" and t is not None and t.name == "main" and not state.get("second_phase"):
                n = WaitQueue.gets
                WaitQueue.gets += 1
                if n == f["k"]:
                    sched.yield_point("main.interrupted")
                    raise_fault("the calling thread was interrupted in its %d-th wait" % n)
            if block and timeout is None:
                return S.FakeQueue.get(self)
            # get(False) / get(timeout=..): Empty when nothing arrives (in virtual time, see timed_wait)
            if not block:
                sched.yield_point("queue.get_nowait")
            elif not timed_wait("queue.get.timed", lambda: bool(self.items)):
                pass
            if not self.items:
                raise real_queue.Empty()
            return self.items.pop(0)

        def get_nowait(self):
            return self.get(False)

        def put(self, item, block=True, timeout=None):
            bounded = bool(self.maxsize and self.maxsize > 0)
            if bounded and not block:
                sched.yield_point("queue.put_nowait")
                if len(self.items) >= self.maxsize:
                    raise real_queue.Full()
            elif bounded and timeout is not None:
                if not timed_wait("queue.put.timed", lambda: len(self.items) < self.maxsize):
                    raise real_queue.Full()
            else:
                return S.FakeQueue.put(self, item)
            self.items.append(item)
            sched.yield_point("queue.put.done")

        def put_nowait(self, item):
            return self.put(item, False)

        def qsize(self):
            return len(self.items)

        def full(self):
            return bool(self.maxsize and self.maxsize > 0 and len(self.items) >= self.maxsize)
    ts.Queue = lambda maxsize=0: WaitQueue(sched, maxsize)
    try:
        sched.spawn(main, "main")
        try:
            sched.run()
        except S.Deadlock as d:
            if spec.get("lazy") and not state.get("threads_first") and [b[0] for b in d.blocked] == ["main"] and d.blocked[0][1] == "make_tests.next":
                # the suite asked for the second sub-suite before it started the first: it collects make_tests
                # completely before running anything, which the statement allows; the harness's lazy iterator
                # (next sub-suite only once the earlier ones have run) has nothing to say about such a suite
                return [], {"switches": 0, "fault_fired": False, "threads": 0, "decisions": len(sched.decisions), "collects_first": True}, sched.decisions
            vs.append(V("deadlock", "fault" if spec["fault"] else "plain", "no thread can run: %r (fault %r)" % (d.blocked, spec["fault"])))
    finally:
        ts.threading, ts.Queue = saved
    if state.get("unmodelled"):
        raise HarnessError("testtools.testsuite reaches for %s, which the harness does not model" % state["unmodelled"])
    for t in sched.tasks:
        if t.error is not None and not isinstance(t.error, FAULTS + (RunnerDied,)):
            if t.name == "main":
                raise HarnessError("main task raised %r" % (t.error,))
            # a worker thread died with an exception that _run_test did not contain
            vs.append(V("worker-thread-died", type(t.error).__name__, "worker thread %s ended with %r" % (t.name, t.error)))
    fault = spec["fault"]
    # (a make_tests that raised may have done so before the suite started anything: a suite may collect first)
    if workers and not state.get("threads_first") and not (fault and fault["at"] == "make_tests" and (fault["k"] == 0 or state["fault_raised"])):
        raise HarnessError("instrumentation no longer binds: no fake thread was created")
    # the fault fired iff the harness raised it (not: "call number k was made" - calls that cannot raise are calls too)
    fault_fired = bool(state["fault_raised"])
    classic_result_fault = bool(fault and fault["at"] == "result" and not stream)
    main_thread_fault = bool(fault and (fault["at"] in ("make_tests", "main_wait", "thread_start") or fault["at"] == "result" and stream))

    # 1. every yielded worker ran exactly once, in its own thread
    n_yielded = len(workers)
    if fault and fault["at"] == "make_tests":
        n_yielded = min(fault["k"], len(workers))
        if fault_fired and not state.get("threads_first"):
            n_yielded = 0       # collected first, make_tests failed: nothing was started, nothing needs running or stopping
    if fault and fault["at"] == "thread_start" and fault_fired:
        n_yielded = fault["k"] + (1 if fault.get("started") else 0)
    if not any(v.clause == "deadlock" for v in vs):
        for w in workers[:n_yielded]:
            if w.runs != 1:
                vs.append(V("run-once", "runs=%d" % w.runs, "worker %d ran %d times" % (w.wid, w.runs)))
        names = [e[2] for e in worker_log if e[1] == "run"]
        if len(set(names)) != len(names) or any(n is None or not n.startswith("W") for n in names):
            vs.append(V("run-once", "own-thread", "workers ran in threads %r" % names))
        # 2. run() returns only after all workers finished
        if state["run_exc"] is None and state.get("unfinished_at_return"):
            vs.append(V("join", "returned-early", "run() returned while %r were still running" % state["unfinished_at_return"]))
        # abort: exception propagates
        if fault_fired and main_thread_fault and not isinstance(state["run_exc"], FAULTS):
            what = {"make_tests": "make_tests raised", "result": "the caller's result raised", "main_wait": "the calling thread was interrupted while waiting",
                    "thread_start": "the calling thread was interrupted (or failed) while starting a worker"}[fault["at"]]
            vs.append(V("abort", "not-propagated", "%s but run() %s" % (what, "returned" if state["run_exc"] is None else "raised %r" % state["run_exc"])))
        if state["run_exc"] is not None and not isinstance(state["run_exc"], FAULTS):
            vs.append(V("run-raises", type(state["run_exc"]).__name__, "run() raised %r" % (state["run_exc"],)))
        # abort: started workers see shouldStop afterwards
        if isinstance(state["run_exc"], FAULTS):
            for e in worker_log:
                if e[1] == "shouldStop" and e[3] and not e[2] and e[0] != 90:       # (worker 90 belongs to the later, fault-free run)
                    vs.append(V("abort", "stop-lost-%s" % spec["suite"], "worker %d read shouldStop == False after run() had been aborted" % e[0]))
                    break
        # nobody aborted run() (and the caller's own result did not ask to stop): no worker is told to stop
        if state["run_exc"] is None and not fault_fired and not (not stream and spec.get("failfast")):
            if not stream and caller.inner.shouldStop:
                vs.append(V("spurious-stop", "caller-stopped", "the caller's result (not failfast) was told to stop although run() was not aborted"))
            for e in worker_log:
                if e[1] == "shouldStop" and e[2] and e[0] != 90:
                    vs.append(V("spurious-stop", spec["suite"], "worker %d read shouldStop == True although run() was not aborted (fault %r) and the caller's "
                                "result did not stop" % (e[0], fault)))
                    break
        # what make_tests is called with: (classic) one suite that holds the suite given to the constructor -
        # the ConcurrentTestSuite itself or that suite; (stream) with nothing
        # (how often it is called is not judged: sub-suites run twice are caught by run-once; the second run has a
        # make_tests of its own)
        for a, kw, held in state["mt_args"][:1]:
            if stream and (a or kw):
                vs.append(V("make_tests", "stream-args", "ConcurrentStreamTestSuite called make_tests with %r %r" % (a, kw)))
            if not stream:
                # (held: the ids of the tests inside the argument, read when make_tests was called)
                if held != ["c13.marker"]:
                    vs.append(V("make_tests", "classic-args", "ConcurrentTestSuite called make_tests with %r %r (tests inside: %r); expected the suite" % (a, kw, held)))
    # 3. delivery
    # (the classic result fault strikes inside a worker; if it never struck, the run is an ordinary one)
    if state["run_exc"] is None and not vs and not (classic_result_fault and fault_fired):
        n_base = sum(1 for e in worker_log if e[1] == "raised" and e[2])     # runners that died of a non-Exception error: reported or not
        for w in workers:
            ran = [e for e in worker_log if e[0] == w.wid and e[1] == "test"]
            broke = any(e[0] == w.wid and e[1] == "raised" and not e[2] for e in worker_log)
            broke_base = any(e[0] == w.wid and e[1] == "raised" and e[2] for e in worker_log)
            if stream:
                code = route_of(w.wid)
                # a worker's events are known by their test ids (route codes may be shared or absent)
                # (events without a test id by the name of their file)
                mine = [s for s in caller.inner.statuses() if (s["test_id"] or "").startswith("w%d." % w.wid) or
                        s["test_id"] is None and (s["file_name"] or "").startswith("w%d." % w.wid) or
                        # a broken-runner report, whatever follows 'broken-runner' in its id: with distinct route
                        # codes it is this worker's when it carries this worker's route code
                        (s["test_id"] or "").startswith("broken-runner") and routes == "distinct" and s["route_code"] == code]
                if any(s["timestamp"] is None or s["timestamp"].tzinfo is None for s in mine):
                    vs.append(V("delivery", "no-timestamp", "an event of worker %d reached the caller without an (aware) timestamp" % w.wid))
                for s in mine:
                    own = own_route if (s["test_id"] or "").startswith("w") and any(e[0] == w.wid and e[1] == "test" and e[2] == s["test_id"] and e[3] == "raw" for e in worker_log) \
                        and routes != "distinct" else None
                    want_code = code if own is None else (own if code is None else code + "/" + own)
                    if s["route_code"] != want_code:
                        vs.append(V("delivery", "route-code", "event %r of worker %d arrived with route code %r, expected %r" % (s["test_id"] or s["file_name"], w.wid, s["route_code"], want_code)))
                        break
                for e in ran:
                    if e[3] in H.METHOD:        # a PlaceHolder with known tags and times
                        i_ = int(e[2].split(".t")[1])
                        fin = [s for s in mine if s["test_id"] == e[2] and s["test_status"] not in (None, "inprogress")]
                        first = [s for s in mine if s["test_id"] == e[2] and s["test_status"] == "inprogress"]
                        if fin and (fin[0]["test_tags"] or frozenset()) != frozenset(["w%d" % w.wid]):
                            vs.append(V("delivery", "stream-tags", "%s arrived with tags %r, its worker tagged it %r" % (e[2], fin[0]["test_tags"], ["w%d" % w.wid])))
                        if fin and fin[0]["timestamp"] != H.ts(100 * w.wid + 2 * i_ + 1) or first and first[0]["timestamp"] != H.ts(100 * w.wid + 2 * i_):
                            vs.append(V("delivery", "stream-time", "%s arrived with timestamps %r / %r, its own are %r / %r" % (
                                e[2], first and first[0]["timestamp"], fin and fin[0]["timestamp"], H.ts(100 * w.wid + 2 * i_), H.ts(100 * w.wid + 2 * i_ + 1))))
                    if e[3] == "raw" and routes != "distinct":
                        fin = [s for s in mine if s["test_id"] == e[2] and s["test_status"] == "success"]
                        if fin and fin[0]["runnable"] is not False:
                            vs.append(V("delivery", "stream-field", "%s was sent with runnable=False and arrived with runnable=%r" % (e[2], fin[0]["runnable"])))
                got = [(s["test_id"], s["test_status"]) for s in mine if s["file_name"] is None]
                want = []
                for e in ran:
                    if e[3] == "attach":
                        # every event of the test, every field of it, in order
                        i_ = int(e[2].split(".t")[1])
                        sent = [dict(dict({f: None for f in ATTACH_FIELDS}, eof=False, runnable=True), **kw) for kw in attach_events(w.wid, i_)]
                        want += [(x["test_id"], x["test_status"]) for x in sent if x["file_name"] is None]
                        sent = [tuple(x[f] for f in ATTACH_FIELDS) for x in sent]
                        arrived = [tuple(x[f] for f in ATTACH_FIELDS) for x in mine
                                   if (x["test_id"] or "").split(".listed")[0] == e[2] or x["test_id"] is None and x["file_name"].startswith(e[2] + ".")]
                        if arrived != sent:
                            vs.append(V("delivery", "stream-attach-fields", "worker %d sent %r %r, the caller received %r" % (w.wid, ATTACH_FIELDS, sent, arrived)))
                        continue
                    want += [(e[2], "inprogress"), (e[2], "success" if e[3] in ("raw", "flood") else H_STATUS[e[3]])]
                    if e[3] == "flood":
                        nchunks = sum(1 for s in mine if s["test_id"] == e[2] and s["file_name"] == "f")
                        if nchunks != FLOOD:
                            vs.append(V("delivery", "stream-attachments", "worker %d sent %d attachment chunks, %d arrived" % (w.wid, FLOOD, nchunks)))
                broken = [g for g in got if g[0] and g[0].startswith("broken-runner")]
                got = [g for g in got if not (g[0] and g[0].startswith("broken-runner"))]
                if got != want:
                    kind = "lost" if len(got) < len(want) else ("duplicated" if len(got) > len(want) else "reordered")
                    vs.append(V("delivery", "stream-" + kind, "worker %d emitted %r, caller received %r" % (w.wid, want, got)))
                if routes != "distinct":
                    # the broken-runner id is made from the route code, which these workers share: count them all
                    # (a runner that died of a non-Exception error may be reported or not: the statement says "raises")
                    all_broken = [x for x in caller.inner.statuses() if (x["test_id"] or "").startswith("broken-runner") and x["test_status"] == "fail"]
                    n_broke = sum(1 for e in worker_log if e[1] == "raised" and not e[2])
                    if not n_broke <= len(all_broken) <= n_broke + n_base and not any(v.bucket == "broken-runner:stream-count" for v in vs):
                        vs.append(V("broken-runner", "stream-count", "%d workers raised from run() (and %d died of a non-Exception error), %d broken-runner failures arrived" % (
                            n_broke, n_base, len(all_broken))))
                elif broke and not any(b[1] == "fail" for b in broken):
                    vs.append(V("broken-runner", "stream-not-reported", "worker %d raised from run() but no broken-runner failure arrived: %r" % (w.wid, broken)))
                if not broke and not broke_base and broken and routes == "distinct":
                    vs.append(V("broken-runner", "stream-spurious", "broken-runner reported for a worker that did not break"))
                if broke:
                    # the report is about this runner's error, not about some error
                    tb = b"".join(x["file_bytes"] or b"" for x in caller.inner.statuses() if (x["test_id"] or "").startswith("broken-runner") and x["file_name"] is not None)
                    if ("runner %d broke" % w.wid).encode() not in tb and not any(v.bucket == "broken-runner:stream-traceback" for v in vs):
                        vs.append(V("broken-runner", "stream-traceback", "worker %d raised RuntimeError('runner %d broke'); no attachment of a broken-runner report mentions it: %r" % (w.wid, w.wid, tb[-300:])))
            else:
                evs = [e for e in caller.inner.events if e[0] in ("startTest", "stopTest") or e[0] in OUTCOMES]
                mine = [(e[0], e[1].id()) for e in evs if e[1].id().startswith("w%d." % w.wid)]
                want = []
                for e in ran:
                    want += [("startTest", e[2]), (H.METHOD[e[3]], e[2]), ("stopTest", e[2])]
                if mine != want:
                    kind = "lost" if len(mine) < len(want) else ("duplicated" if len(mine) > len(want) else "reordered")
                    vs.append(V("delivery", "classic-" + kind, "worker %d reported %r, caller received %r" % (w.wid, want, mine)))
        if not stream:
            for e in caller.inner.events:
                if e[0] in OUTCOMES and e[1].id().startswith("w"):
                    wid, ti = e[1].id()[1:].split(".t")
                    if e[2]["tags"] != frozenset(["w" + wid]):
                        vs.append(V("delivery", "classic-tags", "%s arrived with tags %r, its worker tagged it %r" % (e[1].id(), sorted(e[2]["tags"]), ["w" + wid])))
                        break
                    if e[2]["time"] != H.ts(100 * int(wid) + 2 * int(ti) + 1):
                        vs.append(V("delivery", "classic-time", "%s arrived with time %r, its own end time is %r" % (e[1].id(), e[2]["time"], H.ts(100 * int(wid) + 2 * int(ti) + 1))))
                        break
                if e[0] == "startTest" and e[1].id().startswith("w"):
                    wid, ti = e[1].id()[1:].split(".t")
                    if e[2]["time"] != H.ts(100 * int(wid) + 2 * int(ti)):
                        vs.append(V("delivery", "classic-start-time", "%s started at %r in the caller's result, its own start time is %r" % (e[1].id(), e[2]["time"], H.ts(100 * int(wid) + 2 * int(ti)))))
                        break
            evs = [e for e in caller.inner.events if e[0] in ("startTest", "stopTest") or e[0] in OUTCOMES]
            open_ = None
            for e in evs:
                if e[0] == "startTest":
                    if open_ is not None:
                        vs.append(V("one-at-a-time", "overlap", "startTest(%s) while %s was still open" % (e[1].id(), open_)))
                        break
                    open_ = e[1].id()
                elif e[0] == "stopTest":
                    open_ = None
                elif open_ != e[1].id():
                    vs.append(V("one-at-a-time", "outcome-outside", "outcome for %s while %r was open" % (e[1].id(), open_)))
                    break
            nbroke = sum(1 for e in worker_log if e[1] == "raised" and not e[2])
            got_broken = sum(1 for e in evs if e[0] == "addError" and e[1].id().startswith("broken-runner"))
            if not nbroke <= got_broken <= nbroke + n_base:
                vs.append(V("broken-runner", "classic-count", "%d workers raised from run() (and %d died of a non-Exception error), %d broken-runner errors reported" % (nbroke, n_base, got_broken)))
            reports = " ".join(repr(sorted((e[2].get("details") or {}).items())) + repr(e[2].get("err")) for e in evs if e[0] == "addError" and e[1].id().startswith("broken-runner"))
            for e in worker_log:
                if e[1] == "raised" and not e[2] and "runner %d broke" % e[0] not in reports:
                    vs.append(V("broken-runner", "classic-traceback", "worker %d raised RuntimeError('runner %d broke'); no broken-runner error mentions it: %.300s" % (e[0], e[0], reports)))
                    break
            # "a thread number": one call per worker, each with a number of its own (where the numbering starts is not said)
            nums = state.get("wrapped_first", wrapped)
            if spec["wrap_result"] and not (len(nums) == len(workers) and len(set(nums)) == len(nums) and
                                            all(isinstance(x, int) and not isinstance(x, bool) for x in nums)):
                vs.append(V("wrap_result", "calls", "wrap_result called with %r for %d workers" % (nums, len(workers))))
    if classic_result_fault and not any(v.clause == "deadlock" for v in vs):
        # the caller's result raised inside a worker's block: if that was the outcome call, the test must still be
        # closed before any other test is opened (one test at a time)
        hit = [e for e in caller_log if e[4] == fault["k"]]
        if hit and hit[0][1] in OUTCOMES:
            open_ = None
            for tid_, name, a, kw, n in caller_log:
                if name == "startTest":
                    if open_ is not None:
                        vs.append(V("one-at-a-time", "left-open-after-result-raised", "the caller's result raised in %s(%s); startTest(%s) arrived while %s was still open" % (
                            hit[0][1], hit[0][2][0].id(), a[0].id(), open_)))
                        break
                    open_ = a[0].id()
                elif name == "stopTest":
                    open_ = None
    if second["done"] and not any(v.clause == "deadlock" for v in vs):
        want2 = [("w90.t0", "inprogress", "again"), ("w90.t0", "success", "again"), ("w90.t1", "inprogress", "again"), ("w90.t1", "fail", "again")]
        if second.get("classic"):
            want2 = [("startTest", "w90.t0"), ("addSuccess", "w90.t0"), ("stopTest", "w90.t0"), ("startTest", "w90.t1"), ("addFailure", "w90.t1"), ("stopTest", "w90.t1")]
        if second["exc"] is not None or second["events"] != want2:
            vs.append(V("reuse", "second-run", "a second, fault-free run() of the same suite object raised %r and delivered %r (expected %r)" % (
                second["exc"], second["events"], want2)))
    stats = {"switches": sched.switches, "fault_fired": bool(fault_fired), "threads": state["threads"], "decisions": len(sched.decisions)}
    return vs, stats, sched.decisions


FLOOD = 600


def attach_events(wid, i):
    """The status() calls of an "attach" test: (keyword dicts, in order)."""
    tid = "w%d.t%d" % (wid, i)
    return [
        dict(test_id=tid, test_status="inprogress"),
        dict(test_id=tid, file_name="w%d.t%d.bin" % (wid, i), file_bytes=b"\x00\xff" + tid.encode(), mime_type="application/octet-stream", eof=False),
        dict(test_id=tid, file_name="w%d.t%d.bin" % (wid, i), file_bytes=b"", eof=True),
        dict(test_id=tid, file_name="w%d.t%d.txt" % (wid, i), file_bytes=b"caf\xc3\xa9", mime_type='text/plain; charset="utf8"', eof=True),
        # no test id at all: a run-level attachment, an "exists" enumeration entry is next
        dict(file_name="w%d.t%d.global" % (wid, i), file_bytes=b"g", mime_type="text/x-log", eof=True),
        dict(test_id=tid + ".listed", test_status="exists", runnable=False),
        dict(test_id=tid, test_status="success"),
    ]


def _leaves(suite_or_case):
    try:
        it = iter(suite_or_case)
    except TypeError:
        return [suite_or_case]
    return [leaf for t in it for leaf in _leaves(t)]


ATTACH_FIELDS = ("test_id", "test_status", "file_name", "file_bytes", "mime_type", "eof", "runnable")
H_STATUS = {"success": "success", "error": "fail", "failure": "fail", "skip": "skip", "xfail": "xfail", "uxsuccess": "uxsuccess"}


def run_case(spec):
    vs, stats, _ = execute(spec)
    nt = stats["switches"] >= 2 or stats["fault_fired"]
    return Case(vs, nt, ["suite=" + spec["suite"], "workers=%d" % len(spec["workers"]), "lazy" if spec.get("lazy") else "eager", "eq=" + spec.get("eq_mode", "identity"), "routes=" + spec.get("routes", "distinct") if spec["suite"] == "stream" else "",
                         "failfast" if spec.get("failfast") and spec["suite"] == "classic" else "", "fault=" + (spec["fault"]["at"] if spec["fault"] else "none"),
                         "fired" if stats["fault_fired"] else "", "switches=%d" % min(stats["switches"], 9)], stats)


def custom_dfs(ctx):
    out = []
    thorough = ctx["tier"] == "thorough"
    w2 = [{"tests": ["success", "failure"], "raise_after": None}, {"tests": ["skip"], "raise_after": None}]
    wb = [{"tests": ["success"], "raise_after": 1}, {"tests": ["error"], "raise_after": None}]
    ts0 = {"at": "thread_start", "k": 1, "base": True, "started": True}
    configs = [("stream", w2, None, 1, 600), ("classic", w2, None, 1, 600), ("stream", w2, {"at": "make_tests", "k": 1}, 1, 500),
               ("classic-own-stop", w2, ts0, 1, 300)]
    if thorough:
        configs = [("stream", w2, None, 2, 5000), ("classic", w2, None, 2, 5000), ("stream", wb, None, 2, 3000), ("classic", wb, None, 2, 3000),
                   ("stream", w2, {"at": "make_tests", "k": 1}, 2, 4000), ("stream", w2, {"at": "make_tests", "k": 2}, 2, 4000),
                   ("stream", w2, {"at": "result", "k": 2}, 2, 4000), ("classic", w2, {"at": "make_tests", "k": 1}, 2, 4000),
                   ("classic-own-stop", w2, ts0, 2, 3000), ("stream", w2, ts0, 2, 3000)]
    for suite, ws, fault, bound, max_runs in configs:
        base = {"suite": suite.split("-")[0], "workers": ws, "fault": fault, "wrap_result": "own_stop" if suite.endswith("own-stop") else True, "schedule": []}
        results = []

        def run_one(choices):
            spec = dict(base, schedule=list(choices))
            vs, stats, decisions = execute(spec)
            results.append((spec, vs, stats))
            return decisions
        for _ in S.explore(run_one, bound, max_runs):
            pass
        for spec, vs, stats in results:
            out.append((spec, Case(vs, stats["switches"] >= 2 or stats["fault_fired"],
                                   ["dfs-%s-fault=%s-bound=%d" % (suite, fault and fault["at"], bound), "complete" if S.explore.complete else "truncated"], stats)))
    return out


def _enum_flood():
    """A worker that emits far more events than any sensible queue bound before the next sub-suite exists."""
    for lazy in (True, False):
        for schedule in ([], [1] * 30, [0, 1, 2, 1, 0, 2] * 5):
            for ws in ([["flood"], ["success"]], [["flood", "failure"], ["flood"], []]):
                for fault in (None, {"at": "result", "k": 3, "base": False}, {"at": "result", "k": 300, "base": True}):
                    if fault and schedule:
                        continue
                    yield {"suite": "stream", "workers": [{"tests": t, "raise_after": None, "base": False} for t in ws], "fault": fault,
                           "wrap_result": False, "second_run": False, "lazy": lazy and not fault, "failfast": False, "schedule": schedule}


GRID_SCHEDULES = ([], [1] * 30, [0, 1, 2, 1, 0, 2] * 5, [2, 1] * 15)


def _grid_spec(suite, tests, fault, schedule, **kw):
    spec = {"suite": suite, "workers": [{"tests": list(t), "raise_after": None, "base": False} for t in tests], "fault": fault,
            "wrap_result": "own_stop", "second_run": False, "eq_mode": "identity", "routes": "distinct", "own_route": "sub",
            "lazy": False, "failfast": False, "tail": None, "schedule": list(schedule)}
    spec.update(kw)
    return spec


def _enum_sites():
    """Small complete grids for what random cases hit too rarely to be caught at every seed."""
    # every place where the calling thread can be hit, both suites, three workers that keep their own stop flag
    faults = [{"at": "thread_start", "k": k, "base": started, "started": started} for k in range(3) for started in (True, False)]
    faults += [{"at": "main_wait", "k": k, "base": True} for k in (0, 1, 3)]
    faults += [{"at": "make_tests", "k": k, "base": b} for k, b in ((1, True), (2, False), (3, True))]
    for suite in ("stream", "classic"):
        for fault in faults:
            for schedule in GRID_SCHEDULES:
                yield _grid_spec(suite, [["success", "failure"]] * 3, fault, schedule)
    # route codes: the workers' none / shared / empty / distinct, raw events carrying "sub" or "" themselves; attachments
    # and events without a test id; a broken runner among them
    for routes in ("none", "shared", "empty", "distinct"):
        for own in ("sub", ""):
            for schedule in GRID_SCHEDULES[:2]:
                spec = _grid_spec("stream", [["raw", "attach"], ["attach", "failure", "raw"], ["success"]], None, schedule, routes=routes, own_route=own, wrap_result=False)
                spec["workers"][2]["raise_after"] = 1
                yield spec
    # nobody asked anybody to stop: failures, unexpected successes and a broken runner, then more tests
    for suite in ("stream", "classic"):
        for schedule in GRID_SCHEDULES:
            for wrap in (False, "own_stop"):
                spec = _grid_spec(suite, [["failure", "success", "success"], ["success", "uxsuccess", "success"], ["error"], ["success", "success", "success"]], None, schedule, wrap_result=wrap)
                spec["workers"][2]["raise_after"] = 1
                yield spec
    # sub-suites nobody but the suite refers to (freed once it lets go: addresses are recycled), made lazily or not;
    # schedules that let an early worker's thread end before a later sub-suite is made while another still runs
    for suite in ("stream", "classic"):
        for tests in ([[], ["success"], ["success", "failure"], ["success"]], [["success"], [], [], ["failure", "success"]],
                      [[], [], ["success", "success", "success"], ["success"]], [[], ["success", "success"], []]):
            for schedule in ([], [1] * 30, [2] * 30, [3] * 30, [1, 1, 2, 2] * 8, [2, 2, 3, 3] * 8, [1, 2, 3] * 10, [2, 3] * 15):
                yield _grid_spec(suite, tests, None, schedule, lazy=False, ephemeral=True, wrap_result=False)
            yield _grid_spec(suite, tests, None, [], lazy=True, ephemeral=True, wrap_result=False)
    # long-running forwarders under dense pre-emption (behaviour that depends on how many tests a forwarder has reported)
    for seed in range(12):
        yield _grid_spec("classic", [["failure", "success", "success"], ["success", "uxsuccess", "success"], ["success", "success", "success"]], None, [],
                         wrap_result=False, tail={"seed": seed, "p": 2})


def subchecks(tier):
    q = tier == "quick"
    return [
        Sub("random_schedules", run_case, s_case(), 3000 if q else 40000),
        Sub("event_flood", run_case, enum=_enum_flood, enum_complete=False,
            note="stream suite, one or two workers emitting 600 attachment events per test, eager and lazy make_tests, 3 schedules"),
        Sub("site_and_route_grid", run_case, enum=_enum_sites, enum_complete=True,
            note="(a) both suites x {interrupt / failure in Thread.start of worker 0..2, interrupt in the 1st/2nd/4th wait, make_tests raising "
                 "after 1..3} x 4 schedules, workers with their own stop flag; (b) worker route codes none/shared/''/distinct x raw events "
                 "routed 'sub' / '' x 2 schedules, with attachments, id-less events and a broken runner; (c) fault-free runs with failures "
                 "and a broken runner x 4 schedules x plain / own-stop wrappers (no stop request); (d) classic, 3 workers x 3 tests, 12 dense "
                 "pre-emption tails"),
        Sub("bounded_preemption_dfs", run_case, custom=custom_dfs,
            note="all schedules with <= k pre-emptions for 2-worker configurations (k=1 quick, k=2 thorough)"),
    ]
