"""C03 - reported outcome is sound: success means nothing raised; failures never masked."""
import abc
import functools
import itertools
import json
import unittest

from hypothesis import strategies as st

from vp.core import Case, Sub, V
from vp import programs as P
from vp import progrun as R
from vp.results import OUTCOMES
from props.c01 import grid_program

PROPERTY = "C03"
RULE = ("Generated test programs as in C01 with emphasis on ordered pairs/triples of (exception kind, stage), subclasses "
        "of SkipTest / AssertionError / _ExpectedFailure / _UnexpectedSuccess, expectThat mismatches and force_failure, "
        "user handlers for the skip class in programs that raise several things, "
        "plus single-exception programs with user handlers inserted into exception_handlers with the documented idioms "
        "(insert(0, ..) at the front, insert(-1, ..) before the catch-all, appended behind it; before run() or during "
        "setUp); run against the extended recorder and a real testtools.TestResult. Oracle "
        "from the statement: success <=> the reference interpreter says nothing raised; exactly one exception => the "
        "outcome of the first isinstance-matching handler-table entry; any failure/error raised => a failing outcome "
        "and wasSuccessful() False. Exhaustive grid of 9 behaviours x 5 stages in thorough. "
        "A mismatched expectThat / a set force_failure (instance or class attribute; in any stage, cleanups included) "
        "counts as a failure raised after the cleanups: never a success, never downgraded by a skip / expected failure, "
        "any failing outcome; a skip / an error raised under @unittest.expectedFailure may be reported as a skip / an "
        "error or as an expected failure. Exhaustive grids in every tier: delayed failure x site x one other harmless "
        "exception; one exception x one user handler (plain class, tuple of classes, ABC-registered class) x raising "
        "stage x insertion time (before run(), setUp, test method, tearDown, last cleanup) x runner chosen by default / "
        "runTest= / @run_test_with / a two-argument factory; two tests of one class with different handler tables; "
        "skipTest() and fail() called with stock and project-own skipException / failureException; a plain "
        "unittest.SkipTest under an unrelated skipException; subclasses of the xfail / unexpected-success signals; "
        "@expectedFailure x body x other stage. Non-trivial: >= 2 "
        "exceptions of different classes, or a user handler consulted; distinct = distinct canonical program.")
ASSUMPTIONS = [
    "which of several failures/errors is reported is not asserted",
    "user-mapped exception classes are only generated in single-exception programs; programs raising several things "
    "get at most a user handler for the skip class (which cannot claim a failure or an error)",
    "a handler inserted before the exception is caught (before run(), in setUp, in the test method, in tearDown before a "
    "tearDown / cleanup exception) takes part (exception_handlers is documented as 'able to be modified at any time'); a "
    "handler the test inserts after the exception was caught may take part (testtools: the table in place when the outcome "
    "is reported counts) or not (a runner that resolves the handler as it catches)",
    "of the default handler table only what is documented is used: entries are consulted in list order and the catch-all "
    "for Exception is the last one; which specific entries precede it, and in which order, is not assumed - user handlers "
    "are inserted at the front, with insert(-1, ..) or appended, never between default entries; a user handler behind "
    "the catch-all must not claim an Exception, one inserted with insert(-1, ..) must not claim what a specific default "
    "entry (skip / failure / expected failure / unexpected success) claims",
    "a handler's class may be anything isinstance() accepts: a class, a tuple of classes, an ABC with registered "
    "subclasses",
    "a failure raised by a test decorated with @unittest.expectedFailure is the expected failure; a skip or an error "
    "raised there may be the expected failure (testtools, unittest for the error) or keep the outcome its type maps to "
    "(the statement read literally)",
    "a skip-decorated test is reported as a skip, or as what a user handler claiming the skip class says (a tree may "
    "report the decorator's skip through the handler table)",
    "force_failure set on the instance before run() counts for that run (documented: 'Force testtools.RunTest to fail the "
    "test after the test has completed'); a run() that forgets it is reported",
    "whether a plain unittest.SkipTest raised in a test whose skipException is an unrelated class is an error or a skip "
    "is read off the tree under test (a run that raises nothing else); the rest of the statement is then applied to "
    "that reading",
    "the delayed failure of expectThat / force_failure counts as a failure some stage raised (documented: the test 'will "
    "be marked as failing after the test has finished'), so a skip or an expected failure raised elsewhere does not "
    "downgrade it; which failing outcome reports it, and whether it is still raised when setUp did not complete, is not "
    "asserted; a skip-decorated test with force_failure set may be a skip or any failing outcome",
    "skipException / failureException are set on the class before the test is constructed (rebinding them on the "
    "instance or after construction is not generated: the handler table is built in __init__ - DESIGN 11.2 / audit B.2); "
    "force_failure is only ever set to truthy values (a test that resets it to False after a mismatch is not generated)",
]

# ----------------------------------------------------------------------------- extended programs (built here)
# A program that carries a key "x" is built by build_ext below instead of by vp.programs.build_case alone.  It may use
#   handlers_when "tearDown" / "cleanup" (the user inserts the handlers first thing in tearDown / in the cleanup that
#       runs last, that is after the exception was caught),
#   handler classes "TupleAK" (a tuple of classes) and "VirtualA" (an ABC with CustomA registered),
#   x.via "legacy" / "legacy_decorator" (a RunTest factory of the documented form factory(case, handlers), which knows
#       no last_resort=), besides None / "ctor" / "decorator",
#   x.cls_force (force_failure set as a class attribute), x.own_fail (failureException is a class unrelated to
#       AssertionError), x.mate (handlers of a second instance of the same class that runs first).
class VirtualA(abc.ABC):
    """A handler class that claims CustomA by registration, not by inheritance."""


VirtualA.register(P.CustomA)


class OwnFail(Exception):
    """A project's own failure signal, unrelated to AssertionError."""


EXT_CLASSES = {"CustomA": P.CustomA, "CustomFail": P.CustomFail, "AssertionError": AssertionError, "Exception": Exception,
               "SkipTest": unittest.SkipTest, "TupleAK": (P.CustomA, KeyError), "VirtualA": VirtualA}
FORCE_VALUES = {"True": True, "1": 1, "yes": "yes"}
# Where a user handler goes.  Only "precedence in list order" and "the catch-all for Exception is the last entry" are
# documented, not which default entries precede the catch-all nor their order, so handlers are inserted with the three
# idioms that mean the same under every layout of the default table: insert(0, ..) (RunTest docstring: "insert it at the
# front"), insert(-1, ..) (doc/for-framework-folk: before the catch-all, behind every specific default entry) and
# insert(END, ..) (list.insert clamps: appended behind the catch-all).
END = 1000
DOC_POS = {0: 0, 1: 0, 2: -1, 3: -1, 4: -1, 5: END}


def documented_positions(prog):
    """Map the literal positions 0..5 drawn by vp.programs onto the layout-independent idioms."""
    if not prog.get("handlers"):
        return prog
    return dict(prog, handlers=[dict(h, pos=DOC_POS.get(h["pos"], h["pos"])) for h in prog["handlers"]])


class Model3(P.Model):
    def isinstance_(self, kind, cls):
        if cls == "TupleAK":
            return kind in ("customA", "error_key")
        if cls == "VirtualA":
            return kind == "customA"
        return super().isinstance_(kind, cls)


def model_of(prog):
    x = prog.get("x")
    if x and x.get("cls_force"):
        prog = dict(prog, force_outside=True)
    return Model3(prog).run()


def build_ext(prog, live):
    import testtools
    from testtools.runtest import RunTest
    from vp.results import Ext
    x = prog["x"]
    via, when = x.get("via"), prog.get("handlers_when", "init")
    base = P.build_case(dict(prog, handlers=[], handlers_when="init", force_outside=False,
                             runner_via="decorator" if via == "decorator" else None), live)
    Base = type(base)

    def install(case, handlers):
        for h in handlers:
            def uh(c, result, err, h=h):
                getattr(result, h["to"])(c, details=c.getDetails())
            case.exception_handlers.insert(h["pos"], (EXT_CLASSES[h["cls"]], uh))

    class Extended(Base):
        def setUp(self):
            if self.__dict__.get("_c03_main"):
                if when == "setUp":
                    install(self, prog["handlers"])
                elif when == "cleanup":
                    self.addCleanup(install, self, prog["handlers"])      # registered first: runs after every other cleanup
            return Base.setUp(self)

        @functools.wraps(Base.test_program)
        def test_program(self):
            if when == "body" and self.__dict__.get("_c03_main"):
                install(self, prog["handlers"])
            return Base.test_program(self)

        def tearDown(self):
            if when == "tearDown" and self.__dict__.get("_c03_main"):
                install(self, prog["handlers"])
            return Base.tearDown(self)

    if x.get("cls_force"):
        Extended.force_failure = FORCE_VALUES[x["cls_force"]]
    if x.get("own_fail"):
        Extended.failureException = OwnFail

    def legacy(case, handlers=None):
        return RunTest(case, handlers)
    if via == "legacy_decorator":
        Extended.test_program = testtools.run_test_with(legacy)(Extended.test_program)

    def make():
        if via == "ctor":
            return Extended("test_program", runTest=RunTest)
        if via == "legacy":
            return Extended("test_program", runTest=legacy)
        return Extended("test_program")
    if x.get("mate") is not None:
        # another test of the same class, with its own handler table, runs first
        mate = make()
        install(mate, x["mate"])
        mate.run(Ext(log=[]))
    case = make()
    case._c03_main = True
    if when == "init":
        install(case, prog["handlers"])
    if prog.get("force_outside"):
        case.force_failure = True
    return case


# ----------------------------------------------------------------------------- generation
@st.composite
def custom_programs(draw):
    """Single-exception programs with user handlers; the runner is chosen in every documented way, and now and then the
    handlers are inserted late / for a class that is a tuple or an ABC."""
    prog = documented_positions(dict(draw(P.programs(custom=True, cleanup_depth=1, p_raise=0))))
    if not prog["handlers"] or prog["decor"] != "none":
        return prog
    prog["handlers"] = [dict(h) for h in prog["handlers"]]
    via = draw(st.sampled_from([None, None, "ctor", "decorator", "decorator", "legacy", "legacy_decorator"]))
    ext = via in ("legacy", "legacy_decorator")
    raise_in_setup = any(a["a"] == "raise" for a in prog["setUp_pre"] + prog["setUp_post"])
    if draw(st.integers(0, 3)) == 0:
        prog["handlers_when"] = draw(st.sampled_from(["cleanup"] + ([] if raise_in_setup else ["tearDown"])))
        ext = True
    if draw(st.integers(0, 3)) == 0:
        for h in prog["handlers"]:
            if h["cls"] == "CustomA":
                h["cls"] = draw(st.sampled_from(["TupleAK", "VirtualA"]))
                ext = True
    if ext:
        prog["x"] = {"via": via}
    else:
        prog["runner_via"] = via
    return prog


PROG = st.one_of(P.programs(multi=True, expect=True, force=True, cleanup_depth=2, p_raise=6, extras=True, skip_handlers=True,
                            texts=True, rets=True, upcall=True, decor=True).map(documented_positions),
                 custom_programs())
CASE = st.fixed_dictionaries({"prog": PROG, "flavour": st.sampled_from(["ext", "real", "ext"])})
FAILING = {"addFailure", "addError", "addUnexpectedSuccess"}
SERIOUS = ("failure", "error", "nonexc")


def judge(model, prog, out, flavour, obs):
    """Violations of the statement by the outcome ``out``, given one reference interpretation of the program."""
    vs = []
    admissible, propagates = model.admissible()
    kinds = [r["kind"] for r in model.raised]
    if model.skipped_by_decorator:
        # the statement is silent on a skip-decorated test whose force_failure is set: anything but a success.  A tree
        # that reports the decorator's skip through the handler table (raises skipException(why), as the older skip
        # decorators did) lets a user handler that claims the skip class decide: precedence in list order
        by_user = {h["to"] for h in prog["handlers"] if h["cls"] in ("SkipTest", "Exception")}
        if out != "addSkip" and out not in by_user and not (prog.get("force_outside") and out in FAILING):
            vs.append(V("single-mapping", "decorator-skip->" + out, "a skip-decorated test was reported as %s" % out))
        return vs
    # the delayed failure of expectThat / force_failure ("forced", raised after the cleanups of a test whose setUp
    # completed) is a failure like any other: the test "will be marked as failing after the test has finished"
    real = [r for r in model.raised if r["kind"] != "forced"]
    bad = [r for r in model.raised if P.klass(r["kind"]) in SERIOUS]
    delayed = bool(model.force)
    # (1) success <=> nothing raised, no mismatch, force_failure unset
    if (out == "addSuccess") != (not model.raised and not delayed) and not prog["handlers"]:
        vs.append(V("success-iff-clean", "false-success" if out == "addSuccess" else "false-failure",
                    "outcome %s although the stages raised %r (stages %r)%s" % (
                        out, kinds, [r["stage"] for r in model.raised], ", a delayed failure was due" if delayed else "")))
    # (2) single exception -> the mapped outcome
    if len(model.raised) == 1 and not delayed and not propagates:
        want = model.single_outcome(kinds[0])
        if out != want:
            vs.append(V("single-mapping", "%s->%s" % (kinds[0], out) + ("-userhandlers" if prog["handlers"] else ""),
                        "single %s raised in %s reported as %s, handler table %r says %s" % (
                            kinds[0], model.raised[0]["stage"], out, model.handler_table(), want)))
    if delayed:
        # which failing outcome reports a delayed failure is not in the statement; nor whether it is still raised when
        # setUp did not complete (testtools does not; then only what setUp and the cleanups raised is left)
        admissible = set(FAILING)
        if not bad:
            admissible |= {model.single_outcome(r["kind"]) for r in real}
    # (3) failures are never masked (user handlers, if any, are only for the skip class here)
    only_skip_handlers = all(h["cls"] == "SkipTest" for h in prog["handlers"])
    if bad and (only_skip_handlers if len(kinds) > 1 else not prog["handlers"]):
        if out not in FAILING:
            first_bad = bad[0]
            vs.append(V("masked", "%s-reported-as-%s" % (P.klass(first_bad["kind"]), out),
                        "a %s was raised in %s but the outcome is %s (raised, in order: %r)" % (
                            first_bad["kind"], first_bad["stage"], out, [(r["kind"], r["stage"]) for r in model.raised])))
        if flavour == "real" and obs["result"].wasSuccessful():
            vs.append(V("masked", "wasSuccessful-true", "TestResult.wasSuccessful() is True after %r" % kinds))
    if out not in admissible and not vs:
        vs.append(V("admissible", out, "outcome %s not among %r for raised %r" % (out, sorted(admissible), kinds)))
    if flavour == "real" and not prog["handlers"]:
        if obs["result"].wasSuccessful() != (out not in FAILING):
            vs.append(V("verdict", "wasSuccessful-vs-outcome", "wasSuccessful() %r after %s" % (obs["result"].wasSuccessful(), out)))
    return vs


_RAW_SKIP_IS_SKIP = {}


def raw_skip_is_skip():
    """Does the tree under test treat a plain unittest.SkipTest, raised in a test whose skipException is an unrelated
    class, as a skip (True) or as an ordinary error (False, testtools today)?  Observed once per process on a test that
    does nothing else."""
    if "v" not in _RAW_SKIP_IS_SKIP:
        probe = _blank(custom_skip=True, body=[{"a": "raise", "i": 1, "kind": "raw_skip_error"}])
        outs = R.outcome_names(R.run_program(probe, "ext"))
        _RAW_SKIP_IS_SKIP["v"] = outs == ["addSkip"]
    return _RAW_SKIP_IS_SKIP["v"]


def readings(prog):
    """The reference interpretations the statement admits for a program (the first one is what testtools does today)."""
    if "'raw_skip_error'" in repr(prog) and raw_skip_is_skip():
        prog = json.loads(json.dumps(prog).replace('"raw_skip_error"', '"skip_sub"'))
        prog["custom_skip"] = False         # (for the model: the raised class is a skip class of this test)
    out = [model_of(prog)]
    if prog["decor"] == "expectedFailure" and prog["body"] and prog["body"][-1]["a"] == "raise" \
            and P.klass(prog["body"][-1]["kind"]) in ("skip", "error"):
        # a skip raised inside a test decorated with @unittest.expectedFailure: testtools turns it into an expected
        # failure (DESIGN 11.2); read literally the statement asks for the skip (one exception, of the skip class),
        # which is also what unittest does.  The same for an error: testtools and unittest count any exception of the
        # decorated method as the expected failure, read literally the statement asks for the outcome the type maps to
        # (testtools' own expectFailure() catches failureException only)
        out.append(model_of(dict(prog, decor="none")))
    when = prog.get("handlers_when", "init")
    if prog["handlers"] and (when == "cleanup" or (when == "tearDown" and any(r["stage"] in ("setUp", "body") for r in out[0].raised))):
        # the user inserted the handlers after the exception was caught (first thing in tearDown / in the cleanup that
        # runs last): testtools looks the handler up when the run is reported, so they take part; the statement does not
        # say when the table is consulted, a runner that resolves the handler as it catches is admitted too
        out.append(model_of(dict(prog, handlers=[])))
    return out


def run_case(spec):
    prog, flavour = spec["prog"], spec["flavour"]
    models = readings(prog)
    model = models[0]
    if prog.get("x") is not None:
        live = P.Live()
        obs = R.run_program(prog, flavour, case=build_ext(prog, live), live=live)
    else:
        obs = R.run_program(prog, flavour)
    outs = [e[0] for e in obs["events"] if e[0] in OUTCOMES]
    kinds = [r["kind"] for r in model.raised]
    classes = [P.klass(k) for k in kinds]
    if len(outs) != 1:
        return Case([V("one-outcome", "count", "%d outcomes %r for raised %r" % (len(outs), outs, kinds))], True, ["no-single-outcome"])
    out = outs[0]
    vs = judge(model, prog, out, flavour, obs)
    for other in models[1:]:
        if vs and not judge(other, prog, out, flavour, obs):
            vs = []
    if model.skipped_by_decorator:
        return Case(vs, False, ["decorator-skip"])
    nt = len(set(classes)) >= 2 or bool(prog["handlers"] and model.raised)
    return Case(vs, nt, ["flavour=" + flavour, "raises=%d" % min(len(kinds), 4), "userhandlers" if prog["handlers"] else "",
                         "out=" + out] + sorted({"class=" + c for c in classes}), {"raised": kinds, "outcome": out})


GRID = [None, "fail", "assertion_sub", "error", "skip", "skip_sub", "xfail", "uxsuccess", "multi"]


def _enum(full):
    def gen():
        kinds = GRID if full else [None, "fail", "error", "skip", "xfail", "uxsuccess"]
        for combo in itertools.product(kinds, repeat=5):
            if not full and sum(1 for k in combo if k) > 3:
                continue
            yield {"prog": grid_program(combo), "flavour": "ext"}
            if full:
                yield {"prog": grid_program(combo, expect=True), "flavour": "real"}
    return gen


def _enum_pairs():
    """Two raising stages (first, later) x every pair of behaviours x user handlers for the skip class."""
    kinds = ["fail", "error", "skip", "skip_sub", "xfail", "uxsuccess", "assertion_sub", "error_falsy"]
    sites = [("setUp_post", "cleanup"), ("body", "tearDown_post"), ("body", "cleanup"), ("tearDown_post", "cleanup"), ("cleanup", "cleanup2")]
    handler_sets = [[], [{"cls": "SkipTest", "to": "addSkip", "pos": 0}], [{"cls": "SkipTest", "to": "addSuccess", "pos": 0}],
                    [{"cls": "SkipTest", "to": "addExpectedFailure", "pos": END}]]
    ids = itertools.count(1)
    for k1 in kinds:
        for k2 in kinds:
            for a, b in sites:
                for hs in handler_sets:
                    prog = {"decor": "none", "setUp_pre": [], "setUp_post": [], "body": [], "tearDown_pre": [], "tearDown_post": [],
                            "handlers": hs, "handlers_when": "init", "cells": 0}
                    r1 = {"a": "raise", "i": next(ids), "kind": k1}
                    r2 = {"a": "raise", "i": next(ids), "kind": k2}
                    # cleanups run last-registered first: "cleanup2" is registered before "cleanup" so that it runs after it
                    if b == "cleanup2":
                        prog["setUp_pre"].append({"a": "cleanup", "i": next(ids), "args": False, "body": [r2]})
                    if a == "cleanup":
                        prog["setUp_pre"].append({"a": "cleanup", "i": next(ids), "args": False, "body": [r1]})
                    else:
                        prog[a].append(r1)
                    if b == "cleanup":
                        prog["setUp_pre"].insert(0, {"a": "cleanup", "i": next(ids), "args": False, "body": [r2]})
                    elif b != "cleanup2":
                        prog[b].append(r2)
                    yield {"prog": prog, "flavour": "ext"}


def _blank(**kw):
    prog = {"decor": "none", "setUp_pre": [], "setUp_post": [], "body": [], "tearDown_pre": [], "tearDown_post": [],
            "handlers": [], "handlers_when": "init", "cells": 0}
    prog.update(kw)
    return prog


def _put(prog, ids, site, acts):
    """Append actions to a stage; "cleanup" = a cleanup registered in setUp, "cleanup_nested" = a cleanup registered by a
    cleanup, "cleanup_late" = a cleanup that runs after the other two."""
    if site == "cleanup":
        prog["setUp_pre"].append({"a": "cleanup", "i": next(ids), "args": False, "body": acts})
    elif site == "cleanup_nested":
        inner = {"a": "cleanup", "i": next(ids), "args": False, "body": acts}
        prog["setUp_pre"].append({"a": "cleanup", "i": next(ids), "args": False, "body": [inner]})
    elif site == "cleanup_late":
        prog["setUp_pre"].insert(0, {"a": "cleanup", "i": next(ids), "args": False, "body": acts})
    else:
        prog[site].extend(acts)


def _enum_delayed():
    """A mismatched expectThat / a set force_failure in every stage (cleanups included) of a test in which nothing
    else goes wrong, or in which one stage raises a skip / an expected failure."""
    ids = itertools.count(1)
    sites = ["setUp_post", "body", "tearDown_post", "cleanup", "cleanup_nested"]
    whats = [("expect", None), ("force", "True"), ("force", "1"), ("force", "yes")]
    others = [None] + [(k, s) for k in ("skip", "xfail") for s in ("setUp_post", "body", "tearDown_post", "cleanup", "cleanup_late")]
    for what, value in whats:
        for site in sites:
            for other in others:
                prog = _blank()
                if what == "expect":
                    act = {"a": "expect", "i": next(ids), "ok": False, "dnames": []}
                else:
                    act = {"a": "force", "i": next(ids), "value": value}
                _put(prog, ids, site, [{"a": "log", "i": next(ids)}, act])
                if other:
                    _put(prog, ids, other[1], [{"a": "raise", "i": next(ids), "kind": other[0]}])
                yield {"prog": prog, "flavour": "ext" if other else "real"}
    # force_failure as a class attribute; failureException a class of the project's own
    for value in ("True", "1"):
        for other in (None, ("skip", "body"), ("skip", "cleanup"), ("xfail", "tearDown_post")):
            prog = _blank(x={"cls_force": value})
            if other:
                _put(prog, ids, other[1], [{"a": "raise", "i": next(ids), "kind": other[0]}])
            yield {"prog": prog, "flavour": "real" if other is None else "ext"}
    for first, later in [(("fail", s), None) for s in ("setUp_post", "body", "tearDown_post", "cleanup")] + \
            [(("fail", "body"), ("skip", "cleanup")), (("fail", "body"), ("skip", "tearDown_post")), (("fail", "cleanup"), ("skip", "cleanup_late")),
             (("skip", "body"), None), (("error", "body"), None)]:
        prog = _blank(x={"own_fail": True})
        _put(prog, ids, first[1], [{"a": "raise", "i": next(ids), "kind": first[0]}])
        if later:
            _put(prog, ids, later[1], [{"a": "raise", "i": next(ids), "kind": later[0]}])
        yield {"prog": prog, "flavour": "ext"}


def _enum_handlers():
    """One exception, one user handler: what is raised and which class the handler names x where it is raised x when the
    handler is inserted (cleanups and tearDown included: after the exception was caught) x how the runner was chosen;
    plus two tests of one class with different handler tables."""
    ids = itertools.count(1)
    pairs = [("customA", "CustomA", "addSkip", 0), ("customA", "TupleAK", "addFailure", 0), ("customA", "VirtualA", "addExpectedFailure", -1),
             ("error_key", "TupleAK", "addSkip", 0), ("customFail", "AssertionError", "addSkip", -1), ("skip", "SkipTest", "addFailure", 0),
             ("skip", "SkipTest", "addFailure", END), ("error", "Exception", "addSkip", 0), ("error", "Exception", "addSkip", END),
             ("fail", "CustomFail", "addSkip", 0)]
    for kind, cls, to, pos in pairs:
        for stage in ("setUp_post", "body", "cleanup"):
            for when in ("init", "setUp", "body", "tearDown", "cleanup"):
                if stage == "setUp_post" and when in ("body", "tearDown"):
                    continue                        # never reached
                for via in (None, "ctor", "decorator", "legacy", "legacy_decorator"):
                    prog = _blank(handlers=[{"cls": cls, "to": to, "pos": pos}], handlers_when=when, x={"via": via})
                    _put(prog, ids, "body", [{"a": "log", "i": next(ids)}])
                    if stage == "cleanup":
                        prog["body"].append({"a": "cleanup", "i": next(ids), "args": False, "body": [{"a": "raise", "i": next(ids), "kind": kind}]})
                    else:
                        _put(prog, ids, stage, [{"a": "raise", "i": next(ids), "kind": kind}])
                    yield {"prog": prog, "flavour": "ext"}
    for kind in ("customA", "customFail", "skip"):
        for mate in ([{"cls": "CustomA", "to": "addSkip", "pos": 0}, {"cls": "AssertionError", "to": "addSkip", "pos": 0},
                      {"cls": "SkipTest", "to": "addFailure", "pos": 0}],):
            for own in ([], [{"cls": "Exception", "to": "addExpectedFailure", "pos": 0}]):
                prog = _blank(handlers=own, x={"mate": mate})
                _put(prog, ids, "body", [{"a": "raise", "i": next(ids), "kind": kind}])
                yield {"prog": prog, "flavour": "ext"}


def _enum_api():
    """skipTest() / fail() called (not imitated) with the stock and with a project's own skip / failure class; a plain
    unittest.SkipTest in a test whose skipException is unrelated to it; @unittest.expectedFailure x what the body raises x
    what another stage raises."""
    ids = itertools.count(1)

    def r(kind):
        return [{"a": "raise", "i": next(ids), "kind": kind}]
    sites = ("setUp_post", "body", "tearDown_post", "cleanup")
    for custom_skip in (False, True):
        for kind in ("skip_api", "fail_api"):
            for site in sites:
                prog = _blank(custom_skip=custom_skip)
                _put(prog, ids, site, r(kind))
                yield {"prog": prog, "flavour": "ext"}
        for later, site in (("skip_api", "cleanup"), ("skip_api", "tearDown_post"), ("skip", "cleanup")):
            prog = _blank(custom_skip=custom_skip)
            _put(prog, ids, "body", r("fail_api"))
            _put(prog, ids, site, r(later))
            yield {"prog": prog, "flavour": "real"}
    for site in sites:
        prog = _blank(x={"own_fail": True})
        _put(prog, ids, site, r("fail_api"))
        yield {"prog": prog, "flavour": "ext"}
    for site in sites:
        for later in (None, ("skip", "cleanup_late"), ("skip_sub", "cleanup_late"), ("skip_api", "cleanup_late")):
            prog = _blank(custom_skip=True)
            _put(prog, ids, site, r("raw_skip_error"))
            if later:
                _put(prog, ids, later[1], r(later[0]))
            yield {"prog": prog, "flavour": "ext"}
    # subclasses of the expected-failure / unexpected-success signals: alone, and after a failure or an error
    for kind in ("xfail_sub", "ux_sub"):
        for site in sites:
            prog = _blank()
            _put(prog, ids, site, r(kind))
            yield {"prog": prog, "flavour": "ext"}
        for first in ("fail", "error"):
            for site in ("tearDown_post", "cleanup"):
                prog = _blank()
                _put(prog, ids, "body", r(first))
                _put(prog, ids, site, r(kind))
                yield {"prog": prog, "flavour": "real"}
    for body in (None, "fail", "error", "skip", "skip_sub", "assertion_sub"):
        for other in (None, ("skip", "tearDown_post"), ("error", "tearDown_post"), ("fail", "cleanup"), ("xfail", "cleanup"), ("skip", "cleanup")):
            for custom_skip in (False, True):
                prog = _blank(decor="expectedFailure", custom_skip=custom_skip)
                prog["body"] = [{"a": "log", "i": next(ids)}] + (r(body) if body else [])
                if other:
                    _put(prog, ids, other[1], r(other[0]))
                yield {"prog": prog, "flavour": "ext"}


def subchecks(tier):
    q = tier == "quick"
    return [
        Sub("random_programs", run_case, CASE, 4500 if q else 80000),
        Sub("pairs_with_skip_handlers", run_case, enum=_enum_pairs, enum_complete=True,
            note="8 x 8 behaviours in (earlier stage, later stage) for 5 stage pairs x {no user handler, SkipTest->addSkip, "
                 "SkipTest->addSuccess, SkipTest->addExpectedFailure}"),
        Sub("kind_x_stage_grid", run_case, enum=_enum(not q), enum_complete=True,
            note=("9 behaviours ^ 5 stages, extended recorder + (with expectThat) real TestResult" if not q
                  else "6 behaviours ^ 5 stages with <= 3 faulty stages")),
        Sub("delayed_failure_sites", run_case, enum=_enum_delayed, enum_complete=True,
            note="{expectThat mismatch, force_failure = True / 1 / 'yes'} x 5 sites (setUp, body, tearDown, cleanup, cleanup "
                 "registered by a cleanup) x {nothing else, a skip / an expected failure in one of 5 stages}; force_failure as a "
                 "class attribute; failureException of the project's own"),
        Sub("handler_grid", run_case, enum=_enum_handlers, enum_complete=True,
            note="10 (raised, handler class -> outcome, position) x 3 raising stages x 5 insertion times x 5 ways to choose the "
                 "runner; two tests of one class with different handler tables"),
        Sub("entry_points_and_decorated", run_case, enum=_enum_api, enum_complete=True,
            note="skipTest()/fail() called in 4 stages x {stock, own} skip class (+ own failure class); unittest.SkipTest raised "
                 "under an unrelated skipException x a later skip; subclasses of the xfail / unexpected-success signals alone and after "
                 "a failure / an error; @expectedFailure x 6 bodies x 6 other stages x 2 skip classes"),
    ]
