"""C03 - reported outcome is sound: success means nothing raised; failures never masked."""
import itertools

from hypothesis import strategies as st

from vp.core import Case, Sub, V
from vp import programs as P
from vp import progrun as R
from vp.results import OUTCOMES
from props.c01 import grid_program

PROPERTY = "C03"
RULE = ("Generated test programs as in C01 with emphasis on ordered pairs/triples of (exception kind, stage), subclasses "
        "of SkipTest / AssertionError / _ExpectedFailure / _UnexpectedSuccess, expectThat mismatches and force_failure, "
        "user handlers for the skip class in programs that raise several things, "
        "plus single-exception programs with user handlers inserted into exception_handlers at generated positions "
        "(before run() or during setUp); run against the extended recorder and a real testtools.TestResult. Oracle "
        "from the statement: success <=> the reference interpreter says nothing raised; exactly one exception => the "
        "outcome of the first isinstance-matching handler-table entry; any failure/error raised => a failing outcome "
        "and wasSuccessful() False. Exhaustive grid of 9 behaviours x 5 stages in thorough. Non-trivial: >= 2 "
        "exceptions of different classes, or a user handler consulted; distinct = distinct canonical program.")
ASSUMPTIONS = [
    "which of several failures/errors is reported is not asserted",
    "user-mapped exception classes are only generated in single-exception programs; programs raising several things "
    "get at most a user handler for the skip class (which cannot claim a failure or an error)",
]

PROG = st.one_of(P.programs(multi=True, expect=True, force=True, cleanup_depth=2, p_raise=6, extras=True, skip_handlers=True,
                            texts=True, rets=True, upcall=True, decor=True),
                 P.programs(custom=True, cleanup_depth=1, p_raise=0))
CASE = st.fixed_dictionaries({"prog": PROG, "flavour": st.sampled_from(["ext", "real", "ext"])})
FAILING = {"addFailure", "addError", "addUnexpectedSuccess"}


def run_case(spec):
    prog, flavour = spec["prog"], spec["flavour"]
    vs = []
    model = P.Model(prog).run()
    admissible, propagates = model.admissible()
    obs = R.run_program(prog, flavour)
    outs = [e[0] for e in obs["events"] if e[0] in OUTCOMES]
    kinds = [r["kind"] for r in model.raised]
    classes = [P.klass(k) for k in kinds]
    if len(outs) != 1:
        vs.append(V("one-outcome", "count", "%d outcomes %r for raised %r" % (len(outs), outs, kinds)))
        return Case(vs, True, ["no-single-outcome"])
    out = outs[0]
    if model.skipped_by_decorator:
        if out != "addSkip":
            vs.append(V("single-mapping", "decorator-skip->" + out, "a skip-decorated test was reported as %s" % out))
        return Case(vs, False, ["decorator-skip"])
    # (1) success <=> nothing raised
    if (out == "addSuccess") != (not model.raised) and not prog["handlers"]:
        vs.append(V("success-iff-clean", "false-success" if out == "addSuccess" else "false-failure",
                    "outcome %s although the stages raised %r (stages %r)" % (out, kinds, [r["stage"] for r in model.raised])))
    # (2) single exception -> the mapped outcome
    if len(model.raised) == 1 and not propagates:
        want = model.single_outcome(kinds[0])
        if out != want:
            vs.append(V("single-mapping", "%s->%s" % (kinds[0], out) + ("-userhandlers" if prog["handlers"] else ""),
                        "single %s raised in %s reported as %s, handler table %r says %s" % (
                            kinds[0], model.raised[0]["stage"], out, model.handler_table(), want)))
    # (3) failures are never masked (user handlers, if any, are only for the skip class here)
    only_skip_handlers = all(h["cls"] == "SkipTest" for h in prog["handlers"])
    if any(c in ("failure", "error", "nonexc") for c in classes) and (only_skip_handlers if len(kinds) > 1 else not prog["handlers"]):
        if out not in FAILING:
            first_bad = next(r for r in model.raised if P.klass(r["kind"]) in ("failure", "error", "nonexc"))
            vs.append(V("masked", "%s-reported-as-%s" % (P.klass(first_bad["kind"]), out),
                        "a %s was raised in %s but the outcome is %s (raised, in order: %r)" % (
                            first_bad["kind"], first_bad["stage"], out, [(r["kind"], r["stage"]) for r in model.raised])))
        if flavour == "real" and obs["result"].wasSuccessful():
            vs.append(V("masked", "wasSuccessful-true", "TestResult.wasSuccessful() is True after %r" % kinds))
    if out not in admissible and not vs:
        vs.append(V("admissible", out, "outcome %s not among %r for raised %r" % (out, sorted(admissible), kinds)))
    if flavour == "real" and not prog["handlers"]:
        if obs["result"].wasSuccessful() != (out not in FAILING):
            vs.append(V("verdict", "wasSuccessful-vs-outcome", "wasSuccessful() %r after %s" % (obs["result"].wasSuccessful(), out)))
    nt = len(set(classes)) >= 2 or bool(prog["handlers"] and model.raised)
    return Case(vs, nt, ["flavour=" + flavour, "raises=%d" % min(len(kinds), 4), "userhandlers" if prog["handlers"] else "",
                         "out=" + out] + sorted({"class=" + c for c in classes}), {"raised": kinds, "outcome": out})


GRID = [None, "fail", "assertion_sub", "error", "skip", "skip_sub", "xfail", "uxsuccess", "multi"]


def _enum(full):
    def gen():
        kinds = GRID if full else [None, "fail", "error", "skip", "xfail", "uxsuccess"]
        for combo in itertools.product(kinds, repeat=5):
            if not full and sum(1 for k in combo if k) > 3:
                continue
            yield {"prog": grid_program(combo), "flavour": "ext"}
            if full:
                yield {"prog": grid_program(combo, expect=True), "flavour": "real"}
    return gen


def _enum_pairs():
    """Two raising stages (first, later) x every pair of behaviours x user handlers for the skip class."""
    kinds = ["fail", "error", "skip", "skip_sub", "xfail", "uxsuccess", "assertion_sub", "error_falsy"]
    sites = [("setUp_post", "cleanup"), ("body", "tearDown_post"), ("body", "cleanup"), ("tearDown_post", "cleanup"), ("cleanup", "cleanup2")]
    handler_sets = [[], [{"cls": "SkipTest", "to": "addSkip", "pos": 0}], [{"cls": "SkipTest", "to": "addSuccess", "pos": 0}],
                    [{"cls": "SkipTest", "to": "addExpectedFailure", "pos": 5}]]
    ids = itertools.count(1)
    for k1 in kinds:
        for k2 in kinds:
            for a, b in sites:
                for hs in handler_sets:
                    prog = {"decor": "none", "setUp_pre": [], "setUp_post": [], "body": [], "tearDown_pre": [], "tearDown_post": [],
                            "handlers": hs, "handlers_when": "init", "cells": 0}
                    r1 = {"a": "raise", "i": next(ids), "kind": k1}
                    r2 = {"a": "raise", "i": next(ids), "kind": k2}
                    # cleanups run last-registered first: "cleanup2" is registered before "cleanup" so that it runs after it
                    if b == "cleanup2":
                        prog["setUp_pre"].append({"a": "cleanup", "i": next(ids), "args": False, "body": [r2]})
                    if a == "cleanup":
                        prog["setUp_pre"].append({"a": "cleanup", "i": next(ids), "args": False, "body": [r1]})
                    else:
                        prog[a].append(r1)
                    if b == "cleanup":
                        prog["setUp_pre"].insert(0, {"a": "cleanup", "i": next(ids), "args": False, "body": [r2]})
                    elif b != "cleanup2":
                        prog[b].append(r2)
                    yield {"prog": prog, "flavour": "ext"}


def subchecks(tier):
    q = tier == "quick"
    return [
        Sub("random_programs", run_case, CASE, 4500 if q else 80000),
        Sub("pairs_with_skip_handlers", run_case, enum=_enum_pairs, enum_complete=True,
            note="8 x 8 behaviours in (earlier stage, later stage) for 5 stage pairs x {no user handler, SkipTest->addSkip, "
                 "SkipTest->addSuccess, SkipTest->addExpectedFailure}"),
        Sub("kind_x_stage_grid", run_case, enum=_enum(not q), enum_complete=True,
            note=("9 behaviours ^ 5 stages, extended recorder + (with expectThat) real TestResult" if not q
                  else "6 behaviours ^ 5 stages with <= 3 faulty stages")),
    ]
