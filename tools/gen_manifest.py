#!/usr/bin/env python3
"""Regenerate MANIFEST.json from the table below (claimed = props/cNN.py exists and is listed)."""
import json, os
VERIF = os.path.dirname(os.path.dirname(os.path.abspath(__file__)))

CLAIMED = {
 # id: (technique, level text, level note, design ref)
}
def claim(i, technique, text, note, ref):
    CLAIMED[i] = (technique, text, note, ref)

exec(open(os.path.join(VERIF, "tools", "claims.py")).read())

import ast


def module_texts(pid):
    """RULE and ASSUMPTIONS as written in props/<id>.py (literal module-level assignments), without importing it."""
    out = {"RULE": "", "ASSUMPTIONS": []}
    try:
        tree = ast.parse(open(os.path.join(VERIF, "props", pid.lower() + ".py")).read())
    except OSError:
        return out
    for node in tree.body:
        if isinstance(node, ast.Assign) and len(node.targets) == 1 and getattr(node.targets[0], "id", None) in out:
            try:
                out[node.targets[0].id] = ast.literal_eval(node.value)
            except ValueError:
                pass
    return out


PENDING_REASON = "check not built yet in this session (work in progress; see DESIGN.md section 4)"
checks, na = [], []
for l in open(os.path.join(VERIF, "properties.jsonl")):
    pid = json.loads(l)["id"]
    if pid in CLAIMED and os.path.exists(os.path.join(VERIF, "props", pid.lower() + ".py")):
        technique, text, note, ref = CLAIMED[pid]
        mt = module_texts(pid)
        if mt["RULE"]:
            text = text + " | Generator, oracle and non-triviality rule as stated by the check itself (props/%s.py RULE, also in the evidence file): %s" % (pid.lower(), mt["RULE"])
        if mt["ASSUMPTIONS"]:
            note = note + " | ASSUMPTIONS of the check: " + "; ".join(mt["ASSUMPTIONS"])
        checks.append({
            "property_id": pid,
            "quick_cmd": "./check %s --tier quick" % pid,
            "thorough_cmd": "./check %s --tier thorough" % pid,
            "evidence_file": "evidence/%s.json" % pid,
            "replay_cmd_template": "./check %s --replay {path}" % pid,
            "engine": "hypothesis-spec-runner",
            "level_claimed": {"category": "exploration", "text": text, "design_ref": ref},
            "level_note": note,
            "technique": technique,
        })
    else:
        na.append({"property_id": pid, "reason": PENDING_REASON})
m = {
 "version": 1,
 "setup_cmd": "./setup.sh",
 "hooks": {"guard": "TESTTOOLS_VERIF", "enable": "no source hooks are needed: checks import testtools from /repo's working tree (VERIF_REPO overrides) and set TESTTOOLS_VERIF=1, which nothing in the repository reads",
           "baseline_off_cmd": "cd /repo && env -u TESTTOOLS_VERIF /venv/bin/python -m pytest -ra -q -p no:cacheprovider --timeout=900 --continue-on-collection-errors",
           "source_commits": [], "add_only": True},
 "engines": [{"name": "hypothesis-spec-runner", "path": "vp/core.py", "serves_properties": sorted(CLAIMED),
              "kind_free_text": "Hypothesis 6.168 generators of JSON specs -> real testtools objects -> non-raising oracle (reference model / round trip / differential / history invariant); violations bucketed by root cause, shrunk per bucket, written as replay files; bounded-exhaustive enumerations sharded over 16 processes in the thorough tier"}],
 "checks": checks,
 "not_applicable": na,
 "notes": "All checks honour VERIF_SEED and VERIF_TIER; exit 0 = held, 1 = VIOLATION line(s), 2 = harness error. known_findings.json lists recorded findings and fixed defects.",
}
json.dump(m, open(os.path.join(VERIF, "MANIFEST.json"), "w"), indent=1)
print("claimed:", [c["property_id"] for c in checks], "pending:", len(na))
