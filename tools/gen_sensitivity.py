#!/usr/bin/env python3
"""Write SENSITIVITY.md from seeded/*/meta.json and seeded/RESULTS.json."""
import json, os
V = os.path.dirname(os.path.dirname(os.path.abspath(__file__)))
res = json.load(open(os.path.join(V, "seeded", "RESULTS.json")))
lines = ["# Sensitivity: seeded changes and which check catches them", "",
         "Each row is a change to testing-cabal/testtools written by an independent sub-agent that saw only the text of one",
         "property and its own scratch worktree. Every change keeps the repository's 1327 baseline tests green and comes with a",
         "demonstration that fails with the change and passes without it; both facts were re-confirmed by me in a fresh scratch",
         "worktree (`tools/import_seed.py`, recorded in each `meta.json`). `tools/run_seeded.py` applies the patch to a scratch",
         "worktree of /repo HEAD and runs the property's registered quick check with `VERIF_REPO` pointing at it; CAUGHT = exit 1",
         "with a VIOLATION line. Patches that no longer applied after a `fix:` commit were re-based (original kept as",
         "`patch.orig-*.diff`); C12-2 had been neutralised by fix 77caf72 and was re-based so that it manifests again.",
         "Rounds: plain names = round 1, `-r2-` = round 2 (helpers, less-travelled branches, cooperating edits), `-r3-` = round 3",
         "(changes designed to be overlooked by a generated-input checker), `-r4-` = round 4 (a further set, 28 of 57 missed at first; see DESIGN 11.7), `-r5-` = round 5 (realistic maintainer changes, 56 of 59 caught at first; DESIGN 11.9), `-r6-` / `-r7-` = rounds 6 and 7 (the same measurement again: 56 of 60, 56 of 59; DESIGN 11.11, 11.13), `-r8-` = round 8 (two cooperating sites / multi-step histories, 37 of 39 caught at first; DESIGN 11.15).",
         "`seeded/RESULTS-seed2.json` holds the same run at VERIF_SEED=2. A row whose result names two checks was run against both", 
         "(`check_with` in its meta.json, with the reason).", "",
         "| seeded | property | what was changed | needs to manifest | result | s | buckets reported |", "|---|---|---|---|---|---|---|"]
n = c = 0
ood = []
for name in sorted(res):
    d = os.path.join(V, "seeded", name)
    if not os.path.isdir(d):
        continue
    m = json.load(open(os.path.join(d, "meta.json")))
    r = res[name]
    n += 1
    c += 1 if r["caught"] else 0
    def cell(s, k=170):
        s = " ".join(str(s).split()).replace("|", "\\|")
        return s if len(s) <= k else s[:k - 1] + "…"
    verdict = "CAUGHT" if r["caught"] else ("not caught - outside the property's domain: " + cell(m["out_of_domain"], 400) if m.get("out_of_domain") else "MISSED")
    if not r["caught"] and m.get("out_of_domain"):
        ood.append(name)
    by = r["result"] if len(m.get("check_with", [])) > 1 else ""
    lines.append("| %s | %s | %s | %s | %s | %s | %s |" % (name, m["property"], cell(m.get("summary", "")), cell(m.get("needs_to_manifest", "")),
                 verdict + (" (" + by + ")" if by else ""), r["seconds"], cell(", ".join(r["buckets"]), 120)))
lines += ["", "%d of %d seeded changes are caught by the quick tier (seed %s, /repo at %s); %d are not caught and judged outside the property's stated domain (%s); %d are missed inside the domain." % (
    c, n, next(iter(res.values()))["seed"], next(iter(res.values()))["repo_head"], len(ood), ", ".join(ood) or "-", n - c - len(ood)), ""]
open(os.path.join(V, "SENSITIVITY.md"), "w").write("\n".join(lines))
print(c, "of", n)
