claim("C16", "Hypothesis property-based testing: round-trip and model-based oracles over generated texts, byte chunkings, streams and content types",
      "Generated search (thousands of cases per run, 16-way sharded in thorough) comparing Content/ContentType behaviour with independent models: whole-string decode, slice model of seek/read, structural equality, repr->parse round trip, snapshot-before-mutation. Finds counterexamples; never proves absence.",
      "Trusts CPython codecs/io as the reference; content-type domain restricted as stated in DESIGN.md C16 (no quote characters, control chars, RFC2047 words, ',' in charset).",
      "DESIGN.md 4/C16")
