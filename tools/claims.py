claim("C16", "Hypothesis property-based testing: round-trip and model-based oracles over generated texts, byte chunkings, streams and content types",
      "Generated search (thousands of cases per run, 16-way sharded in thorough) comparing Content/ContentType behaviour with independent models: whole-string decode, slice model of seek/read, structural equality, repr->parse round trip, snapshot-before-mutation. Finds counterexamples; never proves absence.",
      "Trusts CPython codecs/io as the reference; content-type domain restricted as stated in DESIGN.md C16 (no quote characters, control chars, RFC2047 words, ',' in charset).",
      "DESIGN.md 4/C16")
claim("C10", "Hypothesis property-based testing + bounded-exhaustive enumeration against a reference segmentation model of the event stream",
      "Generated and (for length <= 2 quick / <= 3 thorough over a 36-symbol alphabet) exhaustively enumerated status-event sequences are fed to StreamToDict, StreamSummary and StreamToExtendedDecorator; reports are compared with a 40-line reference model written from the statement (per-key segmentation, last status, latest tags, first/last timestamps, concatenated attachments, incomplete at stopTestRun).",
      "Small alphabets (4 ids, route codes of <= 3 segments, 3 file names); text attachments valid for their charset; uxsuccess verdict of StreamSummary not asserted.",
      "DESIGN.md 4/C10")
claim("C11", "Hypothesis property-based testing: generated decorator trees x event sequences against a pure functional path model, with before/after snapshots of argument objects",
      "Each sink's log must equal the input events pushed through a functional model of its path (tags added/discarded, missing timestamp filled with a current UTC time, route prefixed), exactly once and in order; caller's arguments and delivered objects must not change value afterwards; StreamFailFast callback count equals the number of fail/uxsuccess events.",
      "Positional passing limited to test_id/test_status when a tagger or timestamper is in the tree; sharing the caller's own object between targets is not treated as aliasing.",
      "DESIGN.md 4/C11")
claim("C18", "Hypothesis model-based history generation + bounded-exhaustive rule x event enumeration against a reference router; queue/router round trip",
      "Histories of add_rule/startTestRun/stopTestRun/status are replayed on StreamResultRouter and on a reference router (prefix rule > id rule > fallback > raise); every sink log must match exactly (destination, fields, consumed segment, start/stop counts incl. mid-run rules). StreamToQueue(code) followed by a consuming router must be the identity for 1..3 nested codes. Exhaustive over <=2 rules x 10 route codes x 3 ids.",
      "Each prefix/test id registered once; a sink registered for start/stop at most once; run brackets alternate.",
      "DESIGN.md 4/C18")
claim("C19", "Hypothesis property-based testing + bounded-exhaustive enumeration of small suite trees against reference flatten/filter/sort computed on the spec; in-process testtools.run --list/--load-list",
      "Generated suite trees (plain / subclass / sort_tests / non-mutating filter_by_ids, empty suites, duplicate ids) are built from real unittest/testtools objects; iterate_tests must equal the reference pre-order, filter_by_ids the reference filtered sequence and grouping, sorted_tests must raise ValueError iff ids repeat and otherwise return the same tests with plain suites flattened, custom suites whole and keys ordered; testtools.run.main is driven in-process for --list and --load-list (incl. empty list files).",
      "Process-level behaviour is exercised through testtools.run.main in-process (SystemExit captured), not through a child interpreter; placement of empty custom suites not asserted.",
      "DESIGN.md 4/C19")
claim("C17", "Hypothesis model-based history generation against a (global, local) tag model, replayed on 12 reporter/adapter configurations",
      "Generated histories of startTestRun / tags (outside, inside, between outcome and stopTest) / startTest / outcome / stopTest / start-less addSkip+stopTest / PlaceHolder(tags).run are applied to TestResult, TextTestResult, TestByTestResult, MultiTestResult, ThreadsafeForwardingResult, Tagger (also over TSFR), TestResultDecorator, ExtendedToOriginalDecorator (tagged, tag-less and real targets) and ExtendedToStreamDecorator -> StreamToExtendedDecorator; after every call current_tags must equal the model, and at every outcome the tags observed by wrapped results / final status events must equal the reporter's.",
      "tags() called with disjoint sets; single thread (interleavings are C12's business).",
      "DESIGN.md 4/C17")
