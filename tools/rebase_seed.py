#!/venv/bin/python
"""Try to carry a seeded patch (made against the pinned commit) over to /repo HEAD with a 3-way apply;
re-confirm baseline green + demo failing; rewrite patch.diff (keeping the original as patch.orig-d5e6607.diff)."""
import os, shutil, subprocess, sys
def sh(c, **kw): return subprocess.run(c, shell=True, capture_output=True, text=True, **kw)
for name in sys.argv[1:]:
    d = "/verif/seeded/" + name
    wt = "/tmp/vw-rebase-" + name
    sh("git -C /repo worktree remove --force " + wt); shutil.rmtree(wt, ignore_errors=True)
    sh("git -C /repo worktree add -f %s HEAD" % wt)
    try:
        src = d + "/patch.orig-d5e6607.diff" if os.path.exists(d + "/patch.orig-d5e6607.diff") else d + "/patch.diff"
        r = sh("git apply -3 " + src, cwd=wt)
        conflict = sh("git diff --name-only --diff-filter=U", cwd=wt).stdout.strip()
        if r.returncode or conflict:
            print(name, "3-way apply failed:", (r.stderr or conflict)[-300:].replace("\n", " | "))
            continue
        sh("git reset -q", cwd=wt)
        diff = sh("git diff", cwd=wt).stdout
        base = sh("/venv/bin/python /verif/tools/run_baseline.py " + wt)
        demo = sh("PYTHONPATH=%s /venv/bin/python %s/demo.py" % (wt, d), cwd=wt)
        if base.returncode or demo.returncode == 0:
            print(name, "rebased but not confirmed: baseline=%s demo=%s" % (base.returncode, demo.returncode)); continue
        if not os.path.exists(d + "/patch.orig-d5e6607.diff"):
            shutil.copy(d + "/patch.diff", d + "/patch.orig-d5e6607.diff")
        open(d + "/patch.diff", "w").write(diff)
        print(name, "rebased and confirmed")
    finally:
        sh("git -C /repo worktree remove --force " + wt); shutil.rmtree(wt, ignore_errors=True)
