#!/venv/bin/python
"""Run the repository's pinned test suite in DIR (default /repo) and compare
with /root/.vp/BASELINE.json's stable_pass list.  Exit 0 iff every
stable-pass test passes."""
import json, subprocess, sys, tempfile, os
import xml.etree.ElementTree as ET

def main():
    d = sys.argv[1] if len(sys.argv) > 1 else "/repo"
    base = json.load(open("/root/.vp/BASELINE.json"))
    want = set(base["stable_pass"])
    fd, xml = tempfile.mkstemp(suffix=".xml"); os.close(fd)
    env = dict(os.environ); env.pop("TESTTOOLS_VERIF", None)
    subprocess.run(["/venv/bin/python", "-m", "pytest", "-q", "-p", "no:cacheprovider",
                    "--timeout=900", "--continue-on-collection-errors",
                    "--junitxml=" + xml], cwd=d, env=env,
                   stdout=subprocess.DEVNULL, stderr=subprocess.DEVNULL)
    passed = set()
    for tc in ET.parse(xml).getroot().iter("testcase"):
        bad = any(c.tag in ("failure", "error", "skipped") for c in tc)
        if not bad:
            passed.add("%s::%s" % (tc.get("classname"), tc.get("name")))
    os.unlink(xml)
    missing = sorted(want - passed)
    print("stable_pass=%d passed_now=%d missing=%d" % (len(want), len(passed), len(missing)))
    for m in missing[:40]:
        print("  NOT PASSING:", m)
    sys.exit(1 if missing else 0)
main()
