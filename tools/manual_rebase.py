import os, shutil, subprocess, sys
def sh(c, **kw): return subprocess.run(c, shell=True, capture_output=True, text=True, **kw)
def manual(name, edits):
    d = "/verif/seeded/" + name
    wt = "/tmp/vw-rebase-" + name
    sh("git -C /repo worktree remove --force " + wt); shutil.rmtree(wt, ignore_errors=True)
    sh("git -C /repo worktree add -f %s HEAD" % wt)
    try:
        for path, old, new in edits:
            p = os.path.join(wt, path); s = open(p).read(); assert s.count(old) == 1, (name, old[:40]); open(p, "w").write(s.replace(old, new))
        diff = sh("git diff", cwd=wt).stdout
        base = sh("/venv/bin/python /verif/tools/run_baseline.py " + wt)
        demo = sh("PYTHONPATH=%s /venv/bin/python %s/demo.py" % (wt, d), cwd=wt)
        print(name, "baseline", base.returncode, "demo", demo.returncode)
        if base.returncode == 0 and demo.returncode != 0:
            if not os.path.exists(d + "/patch.orig-d5e6607.diff"):
                shutil.copy(d + "/patch.diff", d + "/patch.orig-d5e6607.diff")
            open(d + "/patch.diff", "w").write(diff)
    finally:
        sh("git -C /repo worktree remove --force " + wt); shutil.rmtree(wt, ignore_errors=True)
