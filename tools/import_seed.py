#!/venv/bin/python
"""Confirm a seeded change produced by a sub-agent and keep it under /verif/seeded/.

usage: tools/import_seed.py CNN k [CNN k ...]
For each: fresh scratch worktree of /repo HEAD; demo passes on clean tree; patch applies;
baseline stays green; demo fails with the patch; copy patch.diff, demo.py, meta.json."""
import json, os, shutil, subprocess, sys

def sh(cmd, **kw):
    return subprocess.run(cmd, shell=True, capture_output=True, text=True, **kw)

ROOT = "/tmp/seed"
TAG = ""


def one(pid, k):
    src = "%s/out/%s/%s" % (ROOT, pid, k)
    wt = "/tmp/vw-import-%s-%s%s" % (pid, TAG, k)
    sh("git -C /repo worktree remove --force %s" % wt)
    r = sh("git -C /repo worktree add -f %s HEAD" % wt)
    assert r.returncode == 0, r.stderr
    try:
        env = "PYTHONPATH=%s" % wt
        clean = sh("%s /venv/bin/python %s/demo.py" % (env, src), cwd=wt)
        ap = sh("git apply %s/patch.diff" % src, cwd=wt)
        if ap.returncode != 0:
            ap = sh("git apply -3 %s/patch.diff && git reset -q" % src, cwd=wt)
        if ap.returncode != 0:
            return "patch does not apply: " + ap.stderr
        touched = sh("git diff --name-only", cwd=wt).stdout.split()
        base = sh("/venv/bin/python /verif/tools/run_baseline.py %s" % wt)
        broken = sh("%s /venv/bin/python %s/demo.py" % (env, src), cwd=wt)
        ok = clean.returncode == 0 and base.returncode == 0 and broken.returncode != 0 \
            and not any("/tests/" in t for t in touched)
        if not ok:
            return "NOT CONFIRMED clean=%s baseline=%s broken=%s touched=%s" % (
                clean.returncode, base.returncode, broken.returncode, touched)
        dst = "/verif/seeded/%s-%s%s" % (pid, TAG, k)
        os.makedirs(dst, exist_ok=True)
        shutil.copy(src + "/patch.diff", dst); shutil.copy(src + "/demo.py", dst)
        meta = json.load(open(src + "/meta.json"))
        meta["property"] = pid
        meta["seeded_against"] = sh("git -C /repo log --format=%h -1").stdout.strip()
        meta["round"] = TAG or "r1"
        meta["confirmed_by_me"] = {
            "scratch_worktree": "git worktree of /repo HEAD under /tmp (removed afterwards)",
            "demo_on_clean_tree_exit": clean.returncode,
            "demo_with_patch_exit": broken.returncode,
            "demo_with_patch_output_tail": broken.stdout.strip().splitlines()[-3:],
            "baseline_with_patch": base.stdout.strip().splitlines()[0],
            "files_touched": touched,
            "commands": ["git apply patch.diff", "tools/run_baseline.py <worktree>",
                         "PYTHONPATH=<worktree> /venv/bin/python demo.py"],
        }
        json.dump(meta, open(dst + "/meta.json", "w"), indent=1)
        return "confirmed -> " + dst
    finally:
        sh("git -C /repo worktree remove --force %s" % wt)
        shutil.rmtree(wt, ignore_errors=True)

args = sys.argv[1:]
while args and args[0].startswith("--"):
    if args[0] == "--root":
        ROOT = args[1]
    if args[0] == "--tag":
        TAG = args[1]
    args = args[2:]
for pid, k in zip(args[0::2], args[1::2]):
    print(pid, k, one(pid, k), flush=True)
