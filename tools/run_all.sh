#!/bin/sh
# Run every registered quick (or $1=thorough) check; print one line per property.
tier=${1:-quick}
cd "$(dirname "$0")/.."
for i in 01 02 03 04 05 06 07 08 09 10 11 12 13 14 15 16 17 18 19 20; do
  start=$(date +%s)
  out=$(./check C$i --tier $tier 2>&1); rc=$?
  echo "C$i rc=$rc $(( $(date +%s) - start ))s $(echo "$out" | grep -c '^VIOLATION') violations $(echo "$out" | grep -c '^KNOWN-FINDING') known | $(echo "$out" | grep "^C$i $tier" | cut -c1-90)"
done
