#!/venv/bin/python
"""Run the registered quick (or thorough) check of the property each seeded change breaks,
against a scratch worktree with the change applied (VERIF_REPO), in parallel.

usage: tools/run_seeded.py [--tier quick] [--seed N] [name ...]   (name = directory under seeded/ or mutants/)"""
import json, os, shutil, subprocess, sys, time
from concurrent.futures import ThreadPoolExecutor

VERIF = os.path.dirname(os.path.dirname(os.path.abspath(__file__)))

def sh(cmd, **kw):
    return subprocess.run(cmd, shell=True, capture_output=True, text=True, **kw)

def one(job):
    d, tier, seed = job
    name = os.path.basename(d)
    meta = json.load(open(os.path.join(d, "meta.json")))
    prop = meta["property"]
    props = meta.get("check_with", [prop])
    wt = "/tmp/vw-run-%s" % name
    sh("git -C /repo worktree remove --force %s" % wt); shutil.rmtree(wt, ignore_errors=True)
    r = sh("git -C /repo worktree add -f %s HEAD" % wt)
    if r.returncode: return name, prop, "worktree failed", 0, ""
    try:
        ap = sh("git apply %s/patch.diff" % d, cwd=wt)
        if ap.returncode:
            ap = sh("git apply -3 %s/patch.diff && git reset -q" % d, cwd=wt)
        if ap.returncode: return name, prop, "patch does not apply", 0, ap.stderr[-300:]
        out = []
        res = []
        t0 = time.time()
        for p in props:
            env = dict(os.environ, VERIF_REPO=wt, VERIF_SEED=str(seed),
                       VERIF_EVIDENCE_DIR="/tmp/vw-ev-%s" % name, VERIF_OUT="/tmp/vw-out-%s" % name)
            c = subprocess.run([os.path.join(VERIF, "check"), p, "--tier", tier], env=env,
                               capture_output=True, text=True)
            res.append("%s:exit%d" % (p, c.returncode))
            out.append("\n".join(l for l in c.stdout.splitlines() if l.startswith("  bucket"))[:600])
            if c.returncode not in (0, 1):
                out.append(c.stderr[-800:])
        return name, prop, " ".join(res), time.time() - t0, "\n".join(out)
    finally:
        sh("git -C /repo worktree remove --force %s" % wt); shutil.rmtree(wt, ignore_errors=True)
        shutil.rmtree("/tmp/vw-ev-%s" % name, ignore_errors=True); shutil.rmtree("/tmp/vw-out-%s" % name, ignore_errors=True)

def main():
    args = sys.argv[1:]
    tier, seed = "quick", 1
    while args and args[0].startswith("--"):
        if args[0] == "--tier": tier = args[1]
        if args[0] == "--seed": seed = int(args[1])
        args = args[2:]
    dirs = []
    for base in ("seeded", "mutants"):
        b = os.path.join(VERIF, base)
        if os.path.isdir(b):
            for n in sorted(os.listdir(b)):
                if os.path.exists(os.path.join(b, n, "patch.diff")) and (not args or n in args or any(n.startswith(a) or ("-" + a + "-") in n for a in args)):
                    dirs.append(os.path.join(b, n))
    results = {}
    rp = os.path.join(VERIF, "seeded", "RESULTS.json" if seed == 1 else "RESULTS-seed%d.json" % seed)
    if os.path.exists(rp):
        results = json.load(open(rp))
    with ThreadPoolExecutor(8 if tier == "quick" else 1) as ex:
        for name, prop, res, dt, out in ex.map(one, [(d, tier, seed) for d in dirs]):
            caught = "exit1" in res
            print("%-14s %-5s %-28s %5.0fs %s" % (name, prop, res, dt, "CAUGHT" if caught else "MISSED"), flush=True)
            if out.strip(): print("    " + out.strip().replace("\n", "\n    "))
            buckets = sorted({l.split("bucket ", 1)[1].split(" (x", 1)[0] for l in out.splitlines() if "bucket " in l})
            results[name] = {"property": prop, "tier": tier, "seed": seed, "result": res, "caught": caught,
                             "seconds": round(dt), "buckets": buckets[:6],
                             "repo_head": subprocess.check_output(["git", "-C", "/repo", "log", "--format=%h", "-1"], text=True).strip()}
    json.dump(results, open(rp, "w"), indent=1, sort_keys=True)
main()
