#!/bin/sh
# Offline setup: make sure hypothesis is importable by /venv's python (it is pre-installed in the
# image; install from the offline wheelhouse if a fresh restore lacks it).  atheris (thorough-tier
# fuzzing of two parsers) goes into /verif/.deps; its absence only disables those sub-tiers.
cd "$(dirname "$0")" || exit 1
/venv/bin/python -c "import hypothesis" 2>/dev/null || \
  /venv/bin/pip install --no-index --find-links /opt/veriftools/wheels hypothesis || exit 1
/venv/bin/python -c "import sys; sys.path.insert(0,'.deps'); import atheris" 2>/dev/null || \
  /venv/bin/pip install --no-index --find-links /opt/veriftools/wheels --target .deps atheris >/dev/null 2>&1 || \
  echo "note: atheris not installable; fuzz sub-tiers will be skipped"
/venv/bin/python -c "import hypothesis, testtools, twisted, fixtures; print('setup ok: hypothesis', hypothesis.__version__)"
